#!/bin/sh
# Developer tool: run every check's quick tier in turn against /repo (rewrites evidence/), print exit codes and wall times.
cd /verif
for c in C01 C02 C03 C04 C05 C06 C07 C08 C09 C10 C11 C12 C13 C14 C15 C16 C17 C18 C19; do
  s=$(date +%s)
  /venv/bin/python -m mc.run $c --tier quick > /tmp/quick_$c.log 2>&1
  rc=$?
  e=$(date +%s)
  echo "$c exit=$rc wall=$((e-s))s $(grep -c '^VIOLATION' /tmp/quick_$c.log) violations, $(grep -c '^KNOWN-FINDING' /tmp/quick_$c.log) known"
done
