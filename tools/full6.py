#!/venv/bin/python
"""Developer tool (not part of either tier): the COMPLETE six-qubit sweep of C01 for one configuration --
every one of the 4 922 775 stabilizer groups, canonical generators, sign vector = index mod 64.
    tools/full6.py <connectivity> [stride]
Prints a summary line; writes nothing under /verif/evidence."""
import sys, time, json
sys.path.insert(0, "/verif")
from mc import core, conform, binding as B
from mc.checks import c01
conn = sys.argv[1]
stride = int(sys.argv[2]) if len(sys.argv) > 2 else 1
t = time.time()
ctx = core.Ctx("C01", "thorough", 0)
g6 = B.sg(6)
units = [("n=6 %s: ALL groups (stride %d), sigma = index mod 64" % (conn, stride),
          [("idx", 6, i, [i % 64], 0) for i in range(0, g6.N, stride)], [conn], ["matrices"])]
conform.run_units(ctx, c01.judge, units)
print(json.dumps({"connectivity": conn, "stride": stride, "api_cases": ctx.counters.get("api_cases"), "model_states": ctx.counters.get("states"),
                  "violations": len(ctx.violations) + ctx.unlisted_violations, "wall_s": round(time.time() - t)}))
for what, case in ctx.violations[:5]:
    print("VIOLATION-CASE", what[:300])
