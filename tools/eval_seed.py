#!/venv/bin/python
"""Developer tool: confirm a seeded property-breaking change and record which checks catch it.

    tools/eval_seed.py <seed-id> <source-dir-with-patch.diff+demo.py+notes.md> <property> [check ...] [--no-tests] [--tier quick]

Steps (all in a scratch worktree of /repo under /tmp, removed at the end):
  1. the patch applies to /repo's HEAD;
  2. demo.py exits 0 on the unchanged tree and non-zero with the patch;
  3. the pinned test suite gives the baseline result with the patch (all 152 stable tests pass);
  4. each named check (default: the property's own) is run with VERIF_REPO pointing at the patched
     worktree; VIOLATION lines are collected.
Writes /verif/seeded/<seed-id>/{patch.diff,demo.py,notes.md,meta.json}.
"""
import json
import os
import shutil
import subprocess
import sys
import time
import xml.etree.ElementTree as ET

VERIF = "/verif"
PY = "/venv/bin/python"


def sh(cmd, **kw):
    return subprocess.run(cmd, shell=isinstance(cmd, str), capture_output=True, text=True, **kw)


def junit_passed(path):
    ok = set()
    for tc in ET.parse(path).getroot().iter("testcase"):
        if not any(ch.tag in ("failure", "error", "skipped") for ch in tc):
            ok.add("%s::%s" % (tc.get("classname"), tc.get("name")))
    return ok


def main():
    args = [a for a in sys.argv[1:] if not a.startswith("--")]
    flags = [a for a in sys.argv[1:] if a.startswith("--")]
    sid, src, prop = args[0], args[1], args[2]
    checks = args[3:] or [prop]
    tier = "quick"
    if "--thorough" in flags:
        tier = "thorough"
    out = os.path.join(VERIF, "seeded", sid)
    os.makedirs(out, exist_ok=True)
    for f in ("patch.diff", "demo.py", "notes.md"):
        if os.path.exists(os.path.join(src, f)) and os.path.realpath(os.path.join(src, f)) != os.path.realpath(os.path.join(out, f)):
            shutil.copy(os.path.join(src, f), os.path.join(out, f))
    wt = "/tmp/seedwt_%s_%d" % (sid, os.getpid())
    meta = {"seed": sid, "breaks_property": prop, "ran": [], "at": time.strftime("%Y-%m-%d %H:%M:%S")}
    prev = {}
    if os.path.exists(os.path.join(out, "meta.json")):
        prev = json.load(open(os.path.join(out, "meta.json")))
    if "--no-tests" in flags:
        for k in ("tests_stable_passing", "tests_newly_failing", "tests_wall_s"):
            if k in prev:
                meta[k] = prev[k]
        if "tests_stable_passing" in prev:
            meta["ran"].append("pinned test suite (BASELINE.json command) on the patched worktree [earlier evaluation run, same patch]")
        if prev.get("checks"):
            meta["earlier_check_runs"] = prev.get("earlier_check_runs", []) + [{"verif_commit": prev.get("verif_commit"), "checks": prev["checks"]}]
    meta["verif_commit"] = sh(["git", "-C", VERIF, "rev-parse", "--short", "HEAD"]).stdout.strip()
    try:
        r = sh(["git", "-C", "/repo", "worktree", "add", "--detach", wt, "HEAD", "-q"])
        assert r.returncode == 0, r.stderr
        meta["repo_head"] = sh(["git", "-C", "/repo", "rev-parse", "--short", "HEAD"]).stdout.strip()
        env = dict(os.environ, PYTHONPATH=os.path.join(wt, "src"), PYTHONDONTWRITEBYTECODE="1")
        demo = os.path.join(out, "demo.py")
        r0 = sh([PY, demo], env=env, cwd=wt)
        meta["demo_unchanged_exit"] = r0.returncode
        r = sh(["git", "-C", wt, "apply", os.path.join(out, "patch.diff")])
        meta["patch_applies"] = r.returncode == 0
        if r.returncode != 0:
            meta["patch_error"] = r.stderr[-500:]
            return meta
        r1 = sh([PY, demo], env=env, cwd=wt)
        meta["demo_patched_exit"] = r1.returncode
        meta["demo_patched_output"] = (r1.stdout + r1.stderr)[-600:]
        meta["ran"].append("demo.py on unchanged and patched worktree")
        if "--no-tests" not in flags:
            jx = "/tmp/seed_%s_junit.xml" % sid
            t = time.time()
            sh("cd %s && %s -m pytest -q -p no:cacheprovider --timeout=900 --continue-on-collection-errors --junitxml=%s tests" % (wt, PY, jx), env=env)
            base = json.load(open("/root/.vp/BASELINE.json"))
            passed = junit_passed(jx)
            missing = sorted(set(base["stable_pass"]) - passed)
            meta["tests_stable_passing"] = len(set(base["stable_pass"]) & passed)
            meta["tests_newly_failing"] = missing
            meta["tests_wall_s"] = round(time.time() - t)
            meta["ran"].append("pinned test suite (BASELINE.json command) on the patched worktree")
            os.remove(jx)
        caught = {}
        for chk in checks:
            t = time.time()
            envc = dict(os.environ, VERIF_REPO=wt, PYTHONDONTWRITEBYTECODE="1")
            envc.pop("PYTHONPATH", None)
            # evidence/replay of a seeded run must not overwrite the committed evidence: use a scratch copy of /verif's mc
            r = sh([PY, "-m", "mc.run", chk, "--tier", tier], env=dict(envc, VERIF_EVIDENCE_DIR="/tmp/seed_%s_ev" % sid, VERIF_REPLAY_DIR="/tmp/seed_%s_rp" % sid), cwd=VERIF)
            lines = [ln for ln in r.stdout.splitlines() if ln.startswith("VIOLATION") or ln.startswith("HARNESS-ERROR")]
            detail = [ln.strip() for ln in r.stdout.splitlines() if ln.startswith("   ")][:3]
            caught[chk] = {"exit": r.returncode, "violation_lines": len([l for l in lines if l.startswith("VIOLATION")]),
                           "harness_error": [l for l in lines if l.startswith("HARNESS")][:1], "first": detail, "wall_s": round(time.time() - t)}
            meta["ran"].append("check %s --tier %s with VERIF_REPO=<patched worktree>" % (chk, tier))
        meta["checks"] = caught
        meta["caught_by"] = sorted(c for c, v in caught.items() if v["exit"] == 1 and v["violation_lines"] > 0)
        for d in ("/tmp/seed_%s_ev" % sid, "/tmp/seed_%s_rp" % sid):
            shutil.rmtree(d, ignore_errors=True)
        return meta
    finally:
        notes = os.path.join(out, "notes.md")
        if os.path.exists(notes):
            meta["needs_to_manifest"] = open(notes).read().strip()[:1500]
        with open(os.path.join(out, "meta.json"), "w") as f:
            json.dump(meta, f, indent=1, sort_keys=True)
            f.write("\n")
        sh(["git", "-C", "/repo", "worktree", "remove", "--force", wt])
        shutil.rmtree(wt, ignore_errors=True)
        print(json.dumps({k: meta.get(k) for k in ("seed", "patch_applies", "demo_unchanged_exit", "demo_patched_exit",
                                                    "tests_stable_passing", "tests_newly_failing", "caught_by")}, indent=1))


if __name__ == "__main__":
    main()
