#!/venv/bin/python
"""Developer tool: markdown table of the seeded changes and the checks that catch them (from seeded/*/meta.json)."""
import glob, json, os
rows = []
for f in sorted(glob.glob("/verif/seeded/*/meta.json")):
    m = json.load(open(f))
    notes = (m.get("needs_to_manifest") or "").replace("\n", " ")
    first = notes.split(". ")[0][:150]
    ran = sorted(m.get("checks", {}))
    earlier = []
    for e in m.get("earlier_check_runs", []):
        for c, v in e["checks"].items():
            if not (v["exit"] == 1 and v["violation_lines"] > 0):
                earlier.append("%s@%s:%s" % (c, e.get("verif_commit") or "first", "harness-error" if v["exit"] == 3 else "silent"))
    missed = [c for c in ran if c not in m.get("caught_by", []) and c == m["breaks_property"]]
    rows.append("| %s | %s | %s | %s | %s | %s |" % (m["seed"], m["breaks_property"], "152/152" if m.get("tests_stable_passing") == 152 and not m.get("tests_newly_failing") else "?",
                                               ", ".join(m.get("caught_by", [])) or "-", ", ".join(c for c in ran if c not in m.get("caught_by", [])) or "-",
                                               "; ".join(earlier) or "-"))
print("| seed | breaks | baseline tests | caught by (quick tier) | also run, silent | earlier runs that missed |")
print("|---|---|---|---|---|---|")
print("\n".join(rows))
