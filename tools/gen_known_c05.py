"""Developer tool (never run by a check): list the C05 gaps observed on the current
tree as known-finding records on stdout.  Used once, after the fix commits, to write
known_findings.jsonl; the file is reviewed and committed by hand."""
import json, sys
sys.path.insert(0, "/verif")
from mc import core
from mc.checks import c05

ctx = core.Ctx("C05", "quick", 0)
ctx.known = {}
c05.check(ctx)
for what, case in ctx.violations:
    if case["kind"] != "gap":
        print("UNEXPECTED", what, file=sys.stderr); continue
    d = case["delivered"]
    assert len(set(d.values())) == 1
    key = {"n": case["n"], "conn": case["conn"], "class_id": case["class_id"], "delivered": d["preparation"], "optimum": case["optimum"]}
    print(json.dumps({"status": "known", "property": "C05", "key": key,
                      "what": "table entry %d of stabilizer%d-%s.txt uses %d two-qubit gates; the state-graph search finds a circuit with %d"
                              % (case["class_id"], case["n"], case["conn"], d["preparation"], case["optimum"])}, sort_keys=True))
