#!/venv/bin/python
"""Developer tool: re-run, for every recorded seed, the check of its property and every check that caught it
before, on the current /verif code (patch applied to a scratch worktree; tests not repeated).  PAR seeds at a time."""
import glob, json, os, subprocess, sys
from concurrent.futures import ThreadPoolExecutor
par = int(sys.argv[1]) if len(sys.argv) > 1 else 3
jobs = []
for f in sorted(glob.glob("/verif/seeded/*/meta.json")):
    m = json.load(open(f))
    own = m["breaks_property"]
    caught = m.get("caught_by", [])
    checks = [own] if (own in caught or not caught) else [caught[0]]
    if m.get("at", "") >= os.environ.get("REEVAL_SINCE", "9999"):
        continue          # already re-evaluated on the frozen code
    jobs.append((m["seed"], own, checks))
def run(job):
    sid, prop, checks = job
    r = subprocess.run(["/verif/tools/eval_seed.py", sid, "/verif/seeded/" + sid, prop] + checks + ["--no-tests"], capture_output=True, text=True)
    m = json.load(open("/verif/seeded/%s/meta.json" % sid))
    line = "%s %s caught_by=%s" % (sid, prop, m.get("caught_by"))
    print(line, flush=True)
    return line
with ThreadPoolExecutor(par) as ex:
    list(ex.map(run, jobs))
