"""C09 -- MUB families are complete, index-aligned with their circuits and cost-truthful."""
import os

from .. import core, model as M, tables, selftest
from .c01 import DELIVERED_ALPHABET


def judge_config(n, conn, ctx=None):
    """Return a list of (basis_index or -1, message)."""
    from .. import impl
    out = []
    mubs = impl.mub_circuits.get_mubs(n, conn)
    circuits = impl.mub_circuits.get_mub_circuits(n, conn)
    info = impl.mub_circuits.get_mub_info(n, conn)
    nb = (1 << n) + 1
    if len(mubs) != nb:
        out.append((-1, "get_mubs returns %d bases, expected %d" % (len(mubs), nb)))
    if len(circuits) != nb:
        out.append((-1, "get_mub_circuits returns %d circuits, expected %d" % (len(circuits), nb)))
    # file vs API
    path = os.path.join(tables.DATA_DIR, "mub%d-%s.txt" % (n, conn))
    try:
        head, entries = tables.read_mub_table(path, n)
    except (tables.TableError, OSError) as e:
        return out + [(-1, "strict reader rejects the file: %s" % e)]
    if [b for b, _ in entries] != [list(b) for b in mubs]:
        out.append((-1, "get_mubs differs from the bases listed in the file"))
    ops_list = [impl.circuit_ops(qc, keep_measure=True) for qc in circuits]
    if [g for _, g in entries] != ops_list:
        out.append((-1, "get_mub_circuits differs from the circuits listed in the file (index alignment)"))
    covered = {}
    costs, depths = [], []
    for k, (basis, ops) in enumerate(zip(mubs, ops_list)):
        if ctx is not None:
            ctx.count("states")
        if len(basis) != n or any(len(s.lstrip("+-")) != n for s in basis):
            out.append((k, "basis %d is not a list of %d Pauli strings of length %d: %r" % (k, n, n, basis)))
            continue
        gens = M.parse_gens(basis)
        if not M.is_valid(gens, n):
            out.append((k, "basis %d is not a set of %d commuting independent Paulis: %r" % (k, n, basis)))
            continue
        for v in M.span_unsigned(gens, n):
            if v:
                covered.setdefault(v, []).append(k)
        bad = M.check_alphabet(ops, n, allowed=DELIVERED_ALPHABET)
        if bad:
            out.append((k, "circuit %d: %s" % (k, bad)))
            continue
        if qc_shape_bad(circuits[k], n):
            out.append((k, "circuit %d has %d qubits" % (k, circuits[k].num_qubits)))
        for p in M.expand(gens):
            if ctx is not None:
                ctx.count("transitions")
            q = M.conj_seq(p, ops)
            if q[0] != 0:
                out.append((k, "circuit %d maps %s of basis %d to %s, not Z-type" % (k, M.pauli_str(p, n), k, M.pauli_str(q, n))))
                break
        cost, depth = M.two_qubit_cost(ops), M.two_qubit_depth(ops, n)
        costs.append(cost)
        depths.append(depth)
        ro = impl.circuit_ops(impl.stabilizer_circuits.get_readout_circuit(impl.Stabilizer(list(basis)), conn))
        if ctx is not None:
            ctx.count("traces_validated_against_impl")
        if cost > M.two_qubit_cost(ro):
            out.append((k, "MUB circuit %d needs %d two-qubit gates, the library's own readout circuit for the same basis %d"
                        % (k, cost, M.two_qubit_cost(ro))))
    npauli = (1 << (2 * n)) - 1
    multi = [v for v, ks in covered.items() if len(ks) > 1]
    if multi:
        v = min(multi)
        out.append((covered[v][1], "Pauli %s lies in bases %r" % (M.pauli_str(M.herm(v & ((1 << n) - 1), v >> n, 0), n, False), covered[v])))
    if len(covered) != npauli and not multi:
        out.append((-1, "%d of the %d non-identity Paulis are covered" % (len(covered), npauli)))
    if costs and len(costs) == nb:
        want = {"num circuits": nb, "max two-qubit count": max(costs), "max two-qubit depth": max(depths),
                "average two-qubit count": sum(costs) / nb}
        for key, val in want.items():
            if key not in info or abs(info[key] - val) > 1e-9:
                out.append((-1, "get_mub_info[%r] = %r, actual value %r" % (key, info.get(key), val)))
        if set(info) != set(want):
            out.append((-1, "get_mub_info keys %r" % sorted(info)))
        if head != (sum(costs), max(costs), max(depths)):
            out.append((-1, "file header %r, recomputed %r" % (head, (sum(costs), max(costs), max(depths)))))
    return out


def qc_shape_bad(qc, n):
    return qc.num_qubits != n or qc.num_clbits != 0


def check(ctx):
    ctx.count("model_identities_checked", selftest.gate_rules_vs_matrices())
    ctx.phase("all 20 configurations")
    for n, conn in M.CONFIGS:
        try:
            res = judge_config(n, conn, ctx)
        except Exception as ex:      # noqa: BLE001
            res = [(-1, "raised %s: %s" % (type(ex).__name__, ex))]
        for k, msg in res:
            ctx.violation({"kind": "mub", "n": n, "conn": conn, "basis": k}, "mub: n=%d %s: %s" % (n, conn, msg))
        ctx.count("configurations")
    from .. import impl
    ctx.sample({"n": 3, "conn": "linear", "basis_0": impl.mub_circuits.get_mubs(3, "linear")[0],
                "circuit_0": impl.circuit_ops(impl.mub_circuits.get_mub_circuits(3, "linear")[0])})
    ctx.exhaustive = True
    ctx.count("evaluations", ctx.counters.get("transitions", 0))
    ctx.count("distinct_nontrivial", ctx.counters.get("states", 0))
    ctx.rule = "all 20 configurations x all 2^n+1 bases x all 2^n group elements; distinct_nontrivial counts bases (each a distinct (configuration, index) pair)"
    ctx.notes["states_meaning"] = "bases checked; transitions = group elements conjugated through their circuit"


def replay(body):
    res = judge_config(body["n"], body["conn"])
    for k, msg in res:
        if k == body["basis"]:
            return msg
    return None


REPLAY = {"mub": replay}
