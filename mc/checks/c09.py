"""C09 -- MUB families are complete, index-aligned with their circuits and cost-truthful."""
import os

from .. import core, model as M, tables, selftest
from .c01 import DELIVERED_ALPHABET


def judge_config(n, conn, ctx=None):
    """Return a list of (basis_index or -1, message)."""
    from .. import impl
    out = []
    mubs = impl.mub_circuits.get_mubs(n, conn)
    circuits = impl.mub_circuits.get_mub_circuits(n, conn)
    info = impl.mub_circuits.get_mub_info(n, conn)
    nb = (1 << n) + 1
    if len(mubs) != nb:
        out.append((-1, "get_mubs returns %d bases, expected %d" % (len(mubs), nb)))
    if len(circuits) != nb:
        out.append((-1, "get_mub_circuits returns %d circuits, expected %d" % (len(circuits), nb)))
    # file vs API
    path = os.path.join(tables.DATA_DIR, "mub%d-%s.txt" % (n, conn))
    try:
        head, entries = tables.read_mub_table(path, n)
    except (tables.TableError, OSError) as e:
        return out + [(-1, "strict reader rejects the file: %s" % e)]
    if [b for b, _ in entries] != [list(b) for b in mubs]:
        out.append((-1, "get_mubs differs from the bases listed in the file"))
    ops_list = [impl.circuit_ops(qc, keep_measure=True) for qc in circuits]
    if [g for _, g in entries] != ops_list:
        out.append((-1, "get_mub_circuits differs from the circuits listed in the file (index alignment)"))
    covered = {}
    costs, depths = [], []
    for k, (basis, ops) in enumerate(zip(mubs, ops_list)):
        if ctx is not None:
            ctx.count("states")
        if len(basis) != n or any(len(s.lstrip("+-")) != n for s in basis):
            out.append((k, "basis %d is not a list of %d Pauli strings of length %d: %r" % (k, n, n, basis)))
            continue
        gens = M.parse_gens(basis)
        if not M.is_valid(gens, n):
            out.append((k, "basis %d is not a set of %d commuting independent Paulis: %r" % (k, n, basis)))
            continue
        for v in M.span_unsigned(gens, n):
            if v:
                covered.setdefault(v, []).append(k)
        bad = M.check_alphabet(ops, n, allowed=DELIVERED_ALPHABET)
        if bad:
            out.append((k, "circuit %d: %s" % (k, bad)))
            continue
        if qc_shape_bad(circuits[k], n):
            out.append((k, "circuit %d has %d qubits" % (k, circuits[k].num_qubits)))
        for p in M.expand(gens):
            if ctx is not None:
                ctx.count("transitions")
            q = M.conj_seq(p, ops)
            if q[0] != 0:
                out.append((k, "circuit %d maps %s of basis %d to %s, not Z-type" % (k, M.pauli_str(p, n), k, M.pauli_str(q, n))))
                break
        cost, depth = M.two_qubit_cost(ops), M.two_qubit_depth(ops, n)
        costs.append(cost)
        depths.append(depth)
        ro = impl.circuit_ops(impl.stabilizer_circuits.get_readout_circuit(impl.Stabilizer(list(basis)), conn))
        if ctx is not None:
            ctx.count("traces_validated_against_impl")
        if cost > M.two_qubit_cost(ro):
            out.append((k, "MUB circuit %d needs %d two-qubit gates, the library's own readout circuit for the same basis %d"
                        % (k, cost, M.two_qubit_cost(ro))))
    npauli = (1 << (2 * n)) - 1
    multi = [v for v, ks in covered.items() if len(ks) > 1]
    if multi:
        v = min(multi)
        out.append((covered[v][1], "Pauli %s lies in bases %r" % (M.pauli_str(M.herm(v & ((1 << n) - 1), v >> n, 0), n, False), covered[v])))
    if len(covered) != npauli and not multi:
        out.append((-1, "%d of the %d non-identity Paulis are covered" % (len(covered), npauli)))
    if costs and len(costs) == nb:
        want = {"num circuits": nb, "max two-qubit count": max(costs), "max two-qubit depth": max(depths),
                "average two-qubit count": sum(costs) / nb}
        for key, val in want.items():
            if key not in info or abs(info[key] - val) > 1e-9:
                out.append((-1, "get_mub_info[%r] = %r, actual value %r" % (key, info.get(key), val)))
        if set(info) != set(want):
            out.append((-1, "get_mub_info keys %r" % sorted(info)))
        if head != (sum(costs), max(costs), max(depths)):
            out.append((-1, "file header %r, recomputed %r" % (head, (sum(costs), max(costs), max(depths)))))
    return out


def qc_shape_bad(qc, n):
    return qc.num_qubits != n or qc.num_clbits != 0


# ---- request sequences: the family returned for a configuration must not depend on which configurations were
# ---- requested before it (explicit exploration of load / re-request orders on a cold library)

ENTRY = ("get_mubs", "get_mub_circuits", "get_mub_info")


def expected(n, conn):
    """What the three entry points must return, taken from the file through the strict reader (bases, gate lists)
    and recomputed from the gate lists (info numbers)."""
    head, entries = tables.read_mub_table(os.path.join(tables.DATA_DIR, "mub%d-%s.txt" % (n, conn)), n)
    costs = [M.two_qubit_cost(g) for _, g in entries]
    depths = [M.two_qubit_depth(g, n) for _, g in entries]
    return [list(b) for b, _ in entries], [g for _, g in entries], (max(costs), sum(costs) / len(costs), max(depths))


def observe(lib, n, conn, which):
    from .. import impl
    r = getattr(lib.mub_circuits, ENTRY[which])(n, conn)
    if which == 0:
        return [list(b) for b in r]
    if which == 1:
        return [impl.circuit_ops(qc, keep_measure=True) for qc in r]
    return dict(r)


def info_matches(info, exp):
    vals = sorted(float(v) for v in info.values() if isinstance(v, (int, float)))
    return all(any(abs(v - e) < 1e-9 for v in vals) for e in exp)


def run_sequence(seq):
    """Execute [(n, conn, which), ...] on a cold library; return (index, message) of the first call whose answer is
    not the family of the requested configuration, or None."""
    from .. import histmc
    lib = histmc.fresh_library()
    for k, (n, conn, which) in enumerate(seq):
        exp = expected(n, conn)
        try:
            got = observe(lib, n, conn, which)
        except Exception as ex:      # noqa: BLE001
            return k, "%s(%d, %r) raised %s: %s" % (ENTRY[which], n, conn, type(ex).__name__, str(ex)[:100])
        ok = info_matches(got, exp[2]) if which == 2 else got == exp[which]
        if not ok:
            return k, "%s(%d, %r) does not return the family of that configuration (call %d of the sequence; %d earlier calls on %d other configurations)" % (
                ENTRY[which], n, conn, k + 1, k, len({(a, b) for a, b, _ in seq[:k]} - {(n, conn)}))
    return None


def window_sequence(i, L):
    """Load L configurations starting at i (cyclically, entry points rotating), re-request them in load order
    with the next entry point, then in reverse order with the third."""
    cs = [M.CONFIGS[(i + j) % len(M.CONFIGS)] for j in range(L)]
    seq = [(n, c, (i + j) % 3) for j, (n, c) in enumerate(cs)]
    seq += [(n, c, (i + j + 1) % 3) for j, (n, c) in enumerate(cs)]
    seq += [(n, c, (i + j + 2) % 3) for j, (n, c) in reversed(list(enumerate(cs)))]
    return seq


def _seq_work(payload):
    out = []
    for seq in payload:
        r = run_sequence(seq)
        out.append((len(seq), r))
    return out


def check_sequences(ctx):
    quick = ctx.tier == "quick"
    nc = len(M.CONFIGS)
    seqs = [window_sequence(i, L) for i in range(nc) for L in range(1, nc + 1)]
    # every ordered pair a, b, a (b loaded between two requests of a), every entry point
    pairs = [[(na, ca, w), (nb, cb, (w + 1) % 3), (na, ca, (w + 2) % 3), (nb, cb, w)]
             for x, (na, ca) in enumerate(M.CONFIGS) for y, (nb, cb) in enumerate(M.CONFIGS) if x != y for w in ((x + y) % 3,)]
    ctx.phase("request sequences on a cold library: %d windows (every start x every length 1..%d) and %d ordered pairs" % (len(seqs), nc, len(pairs)))
    chunks = [[s] for s in seqs] + [pairs[k::16] for k in range(16)]
    found = 0
    for res, chunk in zip(core.pmap(_seq_work, chunks), chunks):
        for seq, (ln, r) in zip(chunk, res):
            ctx.count("request_sequences")
            ctx.count("sequence_calls", ln)
            if r is not None and found < 6:
                found += 1
                k, msg = r
                ctx.violation({"kind": "mubseq", "sequence": [list(e) for e in seq[:k + 1]]}, "mubseq: " + msg)
            elif r is not None:
                found += 1
    if found > 6:
        ctx.notes["further_sequence_failures_not_listed"] = found - 6
    ctx.bounds["request_sequences"] = "all %d cyclic windows of the configuration list (start x length), each loaded, re-requested in order and in reverse; all %d ordered pairs a,b,a,b" % (len(seqs), len(pairs))


def replay_seq(body):
    r = run_sequence([tuple(e) for e in body["sequence"]])
    return None if r is None else r[1]


def check(ctx):
    ctx.count("model_identities_checked", selftest.gate_rules_vs_matrices())
    ctx.phase("all 20 configurations")
    for n, conn in M.CONFIGS:
        try:
            res = judge_config(n, conn, ctx)
        except Exception as ex:      # noqa: BLE001
            res = [(-1, "raised %s: %s" % (type(ex).__name__, ex))]
        for k, msg in res:
            ctx.violation({"kind": "mub", "n": n, "conn": conn, "basis": k}, "mub: n=%d %s: %s" % (n, conn, msg))
        ctx.count("configurations")
    check_sequences(ctx)
    from .. import impl
    ctx.sample({"n": 3, "conn": "linear", "basis_0": impl.mub_circuits.get_mubs(3, "linear")[0],
                "circuit_0": impl.circuit_ops(impl.mub_circuits.get_mub_circuits(3, "linear")[0])})
    ctx.exhaustive = True
    ctx.count("evaluations", ctx.counters.get("transitions", 0))
    ctx.count("distinct_nontrivial", ctx.counters.get("states", 0))
    ctx.rule = "all 20 configurations x all 2^n+1 bases x all 2^n group elements; distinct_nontrivial counts bases (each a distinct (configuration, index) pair)"
    ctx.notes["states_meaning"] = "bases checked; transitions = group elements conjugated through their circuit"


def replay(body):
    res = judge_config(body["n"], body["conn"])
    for k, msg in res:
        if k == body["basis"]:
            return msg
    return None


REPLAY = {"mub": replay, "mubseq": replay_seq}
