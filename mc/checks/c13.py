"""C13 -- results are a function of the arguments only: no history or aliasing effects.
Explicit-state breadth-first search over call/mutation histories (engine E3, mc/histmc.py)."""
import json

from .. import core, histmc


def describe(history):
    return " ; ".join("%s:%s" % (k, n) for k, n in history)


def judge_history(history, refs):
    """Replay one history (twice); returns list of (message, index of offending event)."""
    obs1, st1 = histmc.execute(history)
    obs2, st2 = histmc.execute(history)
    if obs1 != obs2 or st1 != st2:
        raise core.HarnessError("replaying the history [%s] twice gives different observations" % describe(history))
    msgs = []
    for k, ((kind, name), ob) in enumerate(zip(history, obs1)):
        if ob is None:
            continue
        ref = get_ref(refs, ob["ref"])
        if ob["result"] != ref:
            msgs.append(("after [%s] the call %s returns %s; a fresh interpreter returns %s for the same argument values" % (
                describe(history[:k]), name, ob["result"][:160], ref[:160]), k))
        if ob["args_before"] != ob["args_after"]:
            msgs.append(("the call %s modified its arguments: %s -> %s" % (name, ob["args_before"][:120], ob["args_after"][:120]), k))
        if ob.get("earlier"):
            msgs.append(("after [%s]: %s" % (describe(history[:k + 1]), ob["earlier"]), k))
    return msgs, st1


def _work(history):
    return histmc.execute(history)


def get_ref(refs, key):
    if key not in refs:
        refs[key] = histmc.reference_answer_held(key) if ("|" in key or key.startswith("@")) else histmc.reference_answer(key, 0)
    return refs[key]


def fill_refs(refs, results):
    """Compute, in parallel, the reference answers for held-object calls seen in this batch."""
    need = sorted({ob["ref"] for obs, _ in results for ob in obs if ob is not None and ob["ref"] not in refs})
    if need:
        for key, ans in core.pmap(histmc._refheld_work, need):
            refs[key] = ans


def check(ctx):
    quick = ctx.tier == "quick"
    depth = 3 if quick else 4
    ctx.phase("reference answers from fresh interpreters (hash seeds 0, 1, 4242)")
    seeds = (0, 1, 4242)
    res = core.pmap(histmc._ref_work, [(name, seed) for name in histmc.CALLS for seed in seeds])
    refs = {}
    for name, seed, ans in res:
        if name in refs and refs[name] != ans:
            ctx.violation({"kind": "seed", "call": name}, "seed: %s returns different results in fresh interpreters with different hash seeds" % name)
        refs.setdefault(name, ans)
    ctx.count("reference_processes", len(res))
    ctx.notes["held_object"] = "a caller-held 4-qubit Stabilizer reused across the h_* calls and mutated in place by the mut_held events; reference = fresh interpreter given a fresh object with the same current values"
    # ---- breadth-first search over histories, deduplicated on the canonical state
    seen = {}
    init_obs, init_state = histmc.execute([])
    seen[init_state] = []
    frontier = [[]]
    violating = {}
    for d in range(1, depth + 1):
        ctx.phase("depth %d: expanding %d states" % (d, len(frontier)))
        cand = [h + [ev] for h in frontier for ev in histmc.enabled(h)]
        results = core.pmap(_work, cand)
        fill_refs(refs, results)
        nxt = []
        for h, (obs, st) in zip(cand, results):
            ctx.count("transitions")
            ctx.count("events_executed", len(h))
            bad = False
            ob = obs[-1]
            if ob is not None:
                name = h[-1][1]
                ctx.count("traces_validated_against_impl")
                if ob["result"] != refs[ob["ref"]]:
                    bad = True
                    violating.setdefault(("result", name, _shape(h)), h)
                if ob["args_before"] != ob["args_after"]:
                    bad = True
                    violating.setdefault(("args", name), h)
                if ob.get("earlier"):
                    bad = True
                    violating.setdefault(("earlier", name), h)
            if st not in seen:
                seen[st] = h
                if not bad:
                    nxt.append(h)
        frontier = nxt
        ctx.bounds["depth_%d_new_states" % d] = len(nxt)
    ctx.count("states", len(seen))
    # determinism (I3) on every retained state's history + minimal violating histories confirmed by double replay
    ctx.phase("replay determinism on %d state-reaching histories" % len(seen))
    hs = list(seen.values())
    r1 = core.pmap(_work, hs)
    r2 = core.pmap(_work, hs)
    for h, a, b in zip(hs, r1, r2):
        if a != b:
            raise core.HarnessError("replaying the history [%s] twice gives different observations" % describe(h))
    ctx.count("histories_replayed_twice", len(hs))
    for sig, h in sorted(violating.items(), key=lambda t: (len(t[1]), str(t[0]))):
        msgs, _ = judge_history(h, refs)
        for m, k in msgs[:1]:
            ctx.violation({"kind": "history", "history": [list(e) for e in h]}, "history: %s" % m)
    ctx.sample({"history": describe([("call", "mubsA"), ("mut_result", "poison"), ("call", "mubsA")]),
                "oracle": "third event must return what a fresh interpreter returns for get_mubs(2,'all')"})
    ctx.sample({"events": ["%s:%s" % e for e in histmc.EVENTS]})
    ctx.bounds["depth"] = depth
    ctx.bounds["alphabet_size"] = len(histmc.EVENTS)
    ctx.exhaustive = True
    ctx.notes["exhaustive_meaning"] = "all event sequences up to the depth bound over the stated alphabet, modulo merging of histories that reach the same canonical state"
    ctx.assume("canonical state = value fingerprint of all module/class-level mutable objects of the package + aliasing of caller-held objects; "
               "sound if the package keeps no other cross-call memory (e.g. closures, C extensions)")
    ctx.assume("argument domain: (2,'all') with a Bell-type group and (3,'linear') with the 3-chain graph state")


def _shape(h):
    return tuple((k, n) for k, n in h if k not in ("call", "hcall", "ocall"))[-2:]


def replay(body):
    h = [tuple(e) for e in body["history"]]
    refs = {}
    msgs, _ = judge_history(h, refs)
    return "; ".join(m for m, _ in msgs[:2]) if msgs else None


def replay_seed(body):
    a = {histmc.reference_answer(body["call"], s) for s in (0, 1, 4242)}
    return None if len(a) == 1 else "results differ across hash seeds"


REPLAY = {"history": replay, "seed": replay_seed}
