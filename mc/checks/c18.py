"""C18 -- GF(2) linear algebra routines are correct for every binary matrix.

Small scope: ALL binary matrices of every shape m x n with m*n <= bound, judged
against brute-force span / kernel enumeration and an independent bit-packed
elimination.  Real shapes: every matrix the layer search hands to the routines
while serving a family of model states (differential against the bit-packed
elimination)."""
import itertools
import numpy as np

from .. import core, model as M, binding as B


def rows_to_ints(A):
    m, n = A.shape
    return [sum((int(A[i, j]) & 1) << (n - 1 - j) for j in range(n)) for i in range(m)]


def ints_to_rows(rows, n):
    return [[(r >> (n - 1 - j)) & 1 for j in range(n)] for r in rows]


def my_rref(rows, n):
    """Bit-packed RREF; column 0 is the most significant bit. Returns (rows, pivot columns)."""
    rows = list(rows)
    h = 0
    piv = []
    for col in range(n):
        bit = 1 << (n - 1 - col)
        p = None
        for i in range(h, len(rows)):
            if rows[i] & bit:
                p = i
                break
        if p is None:
            continue
        rows[h], rows[p] = rows[p], rows[h]
        for i in range(len(rows)):
            if i != h and rows[i] & bit:
                rows[i] ^= rows[h]
        piv.append(col)
        h += 1
        if h == len(rows):
            break
    return rows, piv


def span(rows):
    s = {0}
    for r in rows:
        if r not in s:
            s |= {v ^ r for v in s}
    return s


def judge_matrix(A, brute=True):
    """All clauses for one matrix (numpy int8, shape (m, n)). Returns list of messages."""
    from .. import impl
    f2 = impl.f2_algebra
    msgs = []
    m, n = A.shape
    A0 = A.copy()
    rows = rows_to_ints(A)
    ref, piv = my_rref(rows, n)
    rank = len(piv)
    if brute:
        sp = span(rows)
        if len(sp) != 1 << rank or span(ref) != sp:
            raise core.HarnessError("bit-packed elimination disagrees with span enumeration")
    # rref
    try:
        R, pc_ = f2.rref(A)
        R = np.asarray(R)
        if R.shape != (m, n):
            msgs.append("rref: result shape %r" % (R.shape,))
        elif not np.isin(R, (0, 1)).all() or rows_to_ints(R) != ref:
            msgs.append("rref: result %s is not the reduced row echelon form %s" % (R.tolist(), ints_to_rows(ref, n)))
        if list(pc_) != piv:
            msgs.append("rref: pivot columns %r, expected %r" % (list(pc_), piv))
    except Exception as ex:      # noqa: BLE001
        msgs.append("rref raised %s: %s" % (type(ex).__name__, ex))
    if not np.array_equal(A, A0):
        msgs.append("rref modified its input")
    # rank
    try:
        r = f2.rank(A)
        if r != rank:
            msgs.append("rank = %r, expected %d" % (r, rank))
    except Exception as ex:      # noqa: BLE001
        msgs.append("rank raised %s: %s" % (type(ex).__name__, ex))
    # rref_and_basis_change
    try:
        R2, Mx, Minv = f2.rref_and_basis_change(A)
        R2, Mx, Minv = np.asarray(R2), np.asarray(Mx), np.asarray(Minv)
        if rows_to_ints(R2) != ref or R2.shape != (m, n):
            msgs.append("rref_and_basis_change: echelon form differs from the RREF")
        if Mx.shape != (m, m) or Minv.shape != (m, m):
            msgs.append("rref_and_basis_change: basis change shapes %r %r" % (Mx.shape, Minv.shape))
        else:
            if not np.array_equal((Mx.astype(np.int64) @ A0.astype(np.int64)) % 2, R2.astype(np.int64) % 2):
                msgs.append("rref_and_basis_change: M*A != RREF")
            if not np.array_equal((Mx.astype(np.int64) @ Minv.astype(np.int64)) % 2, np.eye(m, dtype=np.int64)):
                msgs.append("rref_and_basis_change: M*M_inv != I")
            if not np.isin(Mx, (0, 1)).all() or not np.isin(Minv, (0, 1)).all():
                msgs.append("rref_and_basis_change: non-binary basis change")
    except Exception as ex:      # noqa: BLE001
        msgs.append("rref_and_basis_change raised %s: %s" % (type(ex).__name__, ex))
    if not np.array_equal(A, A0):
        msgs.append("rref_and_basis_change modified its input")
    # null_space
    try:
        K = f2.null_space(A)
        K = np.asarray(K)
        k = n - rank
        if K.shape != (k, n):
            msgs.append("null_space: shape %r, expected %r (kernel dimension %d)" % (K.shape, (k, n), k))
        elif K.dtype.kind not in "iub":
            msgs.append("null_space: dtype %s is not an integer type" % K.dtype)
        else:
            if k and np.any((A0.astype(np.int64) @ K.astype(np.int64).T) % 2):
                msgs.append("null_space: a returned vector is not annihilated by A")
            if not np.isin(K, (0, 1)).all():
                msgs.append("null_space: non-binary entries")
            if len(my_rref(rows_to_ints(K), n)[1]) != k:
                msgs.append("null_space: returned vectors are linearly dependent")
        if K.shape[:1] == (0,) and (K.ndim != 2 or K.dtype.kind not in "iub") and not msgs:
            msgs.append("null_space: empty basis is not a well-typed (0, %d) integer array: shape %r dtype %s" % (n, K.shape, K.dtype))
    except Exception as ex:      # noqa: BLE001
        msgs.append("null_space raised %s: %s" % (type(ex).__name__, ex))
    if not np.array_equal(A, A0):
        msgs.append("null_space modified its input")
    return msgs


def matrix_from_code(m, n, code):
    A = np.zeros((m, n), dtype=np.int8)
    for k in range(m * n):
        A[k // n, k % n] = (code >> k) & 1
    return A


def shapes_of(k):
    return [(m, k // m) for m in range(1, k + 1) if k % m == 0]


def _work(payload):
    """All matrices with m*n = k and bit code in [lo, hi).  For every code the SAME flattened entries are
    presented in every shape with m*n = k one after the other, in one process, so that a routine whose answer
    depends on an earlier call with other arguments (a cache keyed too coarsely, a reused buffer) is exposed."""
    k, lo, hi = payload
    fails = []
    nontrivial = 0
    cnt = 0
    for code in range(lo, hi):
        for (m, n) in shapes_of(k):
            A = matrix_from_code(m, n, code)
            cnt += 1
            msgs = judge_matrix(A)
            if code:
                nontrivial += 1
            for msg in msgs[:2]:
                fails.append((m, n, code, msg))
    return cnt, nontrivial, fails


# ------------------------------------------------------------------------------ real shapes

def real_shape_matrices(ns, per_n):
    """Matrices the layer search builds (the argument of null_space / rank), captured by wrapping
    the module attributes for the duration of the calls."""
    from .. import impl, conform
    f2 = impl.f2_algebra
    captured = []
    orig_ns, orig_rank = f2.null_space, f2.rank

    def cap_ns(A):
        captured.append(np.array(A, copy=True))
        return orig_ns(A)

    f2.null_space = cap_ns
    try:
        for n in ns:
            gids = conform.rep_gids(n)[:per_n]
            for k, gid in enumerate(gids):
                gens = B.graph_states_gens(n, gid)
                choice = [(k + q) % 6 for q in range(n)]
                gens = M.run(M.local_layer_gates(choice), n, gens)
                R, S, _ = impl.gens_to_matrices(gens, n)
                other = gids[(k * 7 + 3) % len(gids)]
                for target in (gid, other):
                    try:
                        impl.fll.find_local_clifford_layer(R, S, impl.Graph.decompress(n, target))
                    except Exception:      # noqa: BLE001  (C16 judges the search; here only the matrices matter)
                        pass
    finally:
        f2.null_space, f2.rank = orig_ns, orig_rank
    return captured


def structured_matrices(max_n):
    """Larger shapes, enumerated structurally (no sampling): identities and their row/column extensions,
    every single duplicated or summed row, block and staircase patterns, all matrices whose rows are unit
    vectors e_a or sums e_a + e_b of a fixed small column set embedded at every offset."""
    out = []
    for n in range(1, max_n + 1):
        I = np.eye(n, dtype=np.int8)
        out.append(I)
        out.append(np.concatenate([I, I], axis=1))
        out.append(np.concatenate([I, I], axis=0))
        out.append(np.triu(np.ones((n, n), dtype=np.int8)))
        out.append(np.ones((n, n), dtype=np.int8))
        out.append(np.fliplr(I))
        if n >= 2:
            for r in range(n):
                A = I.copy()
                A[r] = I[(r + 1) % n]                      # row r duplicates the next one -> rank n-1
                out.append(A)
                B = np.concatenate([I, (I[r] ^ I[(r + 1) % n])[None, :]], axis=0)   # a dependent extra row
                out.append(B)
                C = np.delete(I, r, axis=0)                # n-1 independent rows, wide
                out.append(C)
            # rows that agree on the first columns and differ only far to the right
            for k in range(max(1, n - 3), n):
                A = np.zeros((3, n), dtype=np.int8)
                A[:, 0] = 1
                A[1, k] = 1
                A[2, n - 1] = 1
                out.append(A)
    for n in (9, 10, 12, 16, 20, 24):
        for off in range(0, n - 3):
            cols = [off, off + 1, off + 2, off + 3]
            for mask in range(1, 1 << 6):
                rows = []
                pairs = [(0, 1), (0, 2), (0, 3), (1, 2), (1, 3), (2, 3)]
                for b, (x, y) in enumerate(pairs):
                    if (mask >> b) & 1:
                        v = np.zeros(n, dtype=np.int8)
                        v[cols[x]] = 1
                        v[cols[y]] = 1
                        rows.append(v)
                out.append(np.array(rows, dtype=np.int8))
    return out


def _struct_work(payload):
    fails = []
    for A in payload:
        for dt in (np.int8, np.int64):
            msgs = judge_matrix(A.astype(dt), brute=False)
            for msg in msgs[:1]:
                fails.append((A.shape, A.tolist(), np.dtype(dt).name, msg))
    return len(payload) * 2, fails


def check(ctx):
    quick = ctx.tier == "quick"
    bound = 14 if quick else 18
    ctx.phase("all binary matrices with m*n <= %d" % bound)
    payloads = []
    for k in range(1, bound + 1):
        total = 1 << k
        step = max(1, total // 64) if total > 4096 else total
        payloads += [(k, lo, min(total, lo + step)) for lo in range(0, total, step)]
    for (k, lo, hi), (cnt, nontriv, fails) in zip(payloads, core.pmap(_work, payloads)):
        ctx.count("evaluations", cnt)
        ctx.count("distinct_nontrivial", nontriv)
        for m, n, code, msg in fails:
            ctx.violation({"kind": "matrix", "m": m, "n": n, "rows": matrix_from_code(m, n, code).tolist(), "after_shapes": shapes_of(k)},
                          "matrix: %dx%d %s: %s" % (m, n, matrix_from_code(m, n, code).tolist(), msg),
                          key=None)
    ctx.phase("larger shapes, structurally enumerated (identities, duplicated / dependent rows, staircases, embedded edge sets)")
    mats = structured_matrices(24 if quick else 40)
    for cnt, fails in core.pmap(_struct_work, core.chunk_list(mats, 32)):
        ctx.count("evaluations", cnt)
        ctx.count("structured_matrices", cnt)
        ctx.count("distinct_nontrivial", cnt // 2)
        for shape, rows, dt, msg in fails[:10]:
            ctx.violation({"kind": "matrix", "m": shape[0], "n": shape[1], "rows": rows, "dtype": dt},
                          "matrix: %dx%d (structured family, dtype %s): %s" % (shape[0], shape[1], dt, msg))
    ctx.phase("degenerate shapes")
    for m, n in [(0, 1), (0, 3), (1, 0), (3, 0), (0, 0)]:
        A = np.zeros((m, n), dtype=np.int8)
        ctx.count("evaluations")
        for msg in judge_matrix(A, brute=False)[:2]:
            ctx.violation({"kind": "matrix", "m": m, "n": n, "rows": A.tolist()}, "matrix: %dx%d (empty): %s" % (m, n, msg))
    ctx.phase("real shapes: matrices built by the layer search")
    mats = real_shape_matrices((2, 3, 4, 5, 6), 6 if quick else 40)
    shapes_seen = {}
    for A in mats:
        ctx.count("evaluations")
        ctx.count("real_shape_matrices")
        shapes_seen[str(A.shape)] = shapes_seen.get(str(A.shape), 0) + 1
        for msg in judge_matrix(np.asarray(A, dtype=np.int8), brute=False)[:2]:
            ctx.violation({"kind": "matrix", "m": A.shape[0], "n": A.shape[1], "rows": np.asarray(A).tolist()},
                          "matrix: real shape %r: %s" % (A.shape, msg))
    ctx.count("distinct_nontrivial", len(mats))
    # dtype robustness: the same small matrices as int64 and bool-like uint8
    ctx.phase("other integer dtypes")
    for m, n in [(2, 3), (3, 3), (3, 2)]:
        for code in range(1 << (m * n)):
            for dt in (np.int64, np.uint8):
                ctx.count("evaluations")
                A = matrix_from_code(m, n, code).astype(dt)
                for msg in judge_matrix(A)[:1]:
                    ctx.violation({"kind": "matrix", "m": m, "n": n, "rows": A.tolist(), "dtype": np.dtype(dt).name},
                                  "matrix: %dx%d dtype %s %s: %s" % (m, n, np.dtype(dt).name, A.tolist(), msg))
    ctx.notes["real_shapes"] = shapes_seen
    ctx.sample({"matrix": [[1, 0, 1], [0, 1, 1]], "rref": [[1, 0, 1], [0, 1, 1]], "kernel": [[1, 1, 1]]})
    ctx.exhaustive = True
    ctx.bounds["m*n"] = bound
    ctx.count("states", ctx.counters["evaluations"])
    ctx.count("transitions", ctx.counters["evaluations"] * 4)
    ctx.count("traces_validated_against_impl", ctx.counters["evaluations"])
    ctx.rule = ("every binary matrix of every shape m x n with m*n <= %d (each matrix once), the zero-dimension shapes, and every matrix the layer "
                "search built for a family of model states; non-trivial = not the zero matrix" % bound)
    ctx.notes["states_meaning"] = "matrices; transitions = routine invocations (rref, rank, rref_and_basis_change, null_space) per matrix"


def replay_matrix(body):
    A = np.array(body["rows"], dtype=np.dtype(body.get("dtype", "int8"))).reshape(body["m"], body["n"])
    for (m, n) in body.get("after_shapes", []):
        if (m, n) == (body["m"], body["n"]):
            break
        judge_matrix(A.reshape(m, n).copy(), brute=False)      # the calls that preceded this one in the exploration
    msgs = judge_matrix(A, brute=(body["m"] * body["n"] <= 20))
    return "; ".join(msgs) if msgs else None


REPLAY = {"matrix": replay_matrix}
