"""C17 -- every lookup-table entry is internally consistent (DESIGN.md section 5)."""
import os

from .. import core, model as M, tables, selftest
from .. import stategraph as SG

_sg = {}


def sg(n):
    if n not in _sg:
        _sg[n] = SG.StateGraph(n)
    return _sg[n]


def graph_component(n, gid):
    return sg(n).component_of_gens(M.graph_state_gens(n, M.graph_id_to_masks(n, gid)))


def judge_file(path, n, conn, ctx=None):
    """Yield (line_index, message) for every inconsistency of one table file."""
    from .. import impl
    base = os.path.basename(path)
    if n is None or n not in M.N_CLASSES:
        yield (-1, "%s: file name does not follow stabilizer<n>-<connectivity>.txt with n in 2..6" % base)
        return
    try:
        entries = tables.read_stabilizer_table(path, n)
    except tables.TableError as e:
        yield (-1, "strict parser rejects the file: %s" % e)
        return
    K = M.N_CLASSES[n]
    if len(entries) != K:
        yield (-1, "%s has %d entries, expected one per class id (%d)" % (base, len(entries), K))
    comps_seen = {}
    for idx, e in enumerate(entries):
        gates = e["gates"]
        if ctx is not None:
            ctx.count("states")
            ctx.count("transitions", len(gates))
        # (a) circuit prepares the graph state of the listed graph, up to signs
        got = M.canon_unsigned(M.run(gates, n), n)
        want = M.canon_unsigned(M.graph_state_gens(n, M.graph_id_to_masks(n, e["graph_id"])), n)
        if got != want:
            yield (idx, "circuit does not prepare the graph state of graph %d (up to signs)" % e["graph_id"])
        # (b) recorded cost / depth
        cost, depth = M.two_qubit_cost(gates), M.two_qubit_depth(gates, n)
        if cost != e["cost"]:
            yield (idx, "recorded cost %d, circuit has %d two-qubit gates (swap=3)" % (e["cost"], cost))
        if depth != e["depth"]:
            yield (idx, "recorded depth %d, circuit has two-qubit depth %d" % (e["depth"], depth))
        # (c) graph belongs to the class the entry is filed under
        comp = graph_component(n, e["graph_id"])
        if comp in comps_seen:
            yield (idx, "graph %d lies in the same local-Clifford class as the graph of line %d" % (e["graph_id"], comps_seen[comp]))
        comps_seen.setdefault(comp, idx)
        if idx < K:
            lib_id = impl.class_id(impl.Stabilizer(impl.Graph.decompress(n, e["graph_id"])))
            if lib_id != idx:
                yield (idx, "graph %d is classified as class %d by the library, filed under %d" % (e["graph_id"], lib_id, idx))
            cls = getattr(impl.lc_classes, "LCClass%d" % n)
            rep = cls(idx).get_graph()
            rep_masks = [sum(int(rep.adjacency_matrix[v, w]) << w for w in range(n)) for v in range(n)]
            rep_comp = sg(n).component_of_gens(M.graph_state_gens(n, rep_masks))
            if rep_comp != comp:
                yield (idx, "graph %d is not in the local-Clifford orbit of the representative graph of class %d" % (e["graph_id"], idx))
        # (d) the library's parser sees the same instruction list
        try:
            lib_ops = impl.circuit_ops(impl.circuit_lookup.parse_circuit(n, e["text"]))
        except Exception as ex:          # noqa: BLE001
            lib_ops = "raised %s" % type(ex).__name__
        if lib_ops != gates:
            yield (idx, "library parser yields %r, strict parser %r" % (lib_ops, gates))
        if ctx is not None:
            ctx.count("traces_validated_against_impl")
        # (e) lookup API returns this very entry (only for real connectivities)
        if conn in M.configs_for(n) and idx < K:
            info = impl.lookup(n, conn, idx)
            tup = (info.graph_id, info.cost, info.depth, impl.circuit_ops(info.parse_circuit()))
            if tup != (e["graph_id"], e["cost"], e["depth"], gates):
                yield (idx, "stabilizer_circuit_lookup returns %r, file says %r" % (tup, (e["graph_id"], e["cost"], e["depth"], gates)))
            if ctx is not None and idx in (0, K // 2, K - 1) and conn in ("all", "linear", "H"):
                ctx.sample({"file": base, "line": idx, "graph_id": e["graph_id"], "cost": e["cost"],
                            "depth": e["depth"], "circuit": e["text"]})


def check(ctx):
    ctx.phase("model self-check (gate rules vs. matrices)")
    ctx.count("model_identities_checked", selftest.gate_rules_vs_matrices())
    ctx.phase("table scan")
    files = tables.table_files("stabilizer")
    found = {(n, c) for (_, n, c) in files}
    for n, c in M.CONFIGS:
        if (n, c) not in found:
            ctx.violation({"kind": "missing_table", "n": n, "conn": c},
                          "missing_table: no stabilizer table for advertised configuration (%d, %s)" % (n, c))
    scanned = []
    for path, n, conn in files:
        ctx.count("files")
        attached = 0
        for idx, msg in judge_file(path, n, conn, ctx):
            case = {"kind": "table_entry", "file": os.path.basename(path), "line": idx}
            if scanned:
                # the scan reads the files one after the other in one process: record that history with the case
                case["preceding"] = [{"kind": "table_file", "file": f} for f in scanned]
                attached += 1
            ctx.violation(case, "table_entry: %s line %d: %s" % (os.path.basename(path), idx, msg))
        scanned.append(os.path.basename(path))
    ctx.exhaustive = True
    ctx.count("evaluations", ctx.counters.get("states", 0))
    ctx.count("distinct_nontrivial", ctx.counters.get("states", 0))
    ctx.rule = ("every line of every stabilizer*-*.txt in the data directory; each line is a distinct "
                "(file, class id) entry; all are non-trivial (a circuit is simulated and a graph classified)")
    ctx.assume("table semantics: 'cx a,b' has control a and target b (what the library's parser builds)")
    ctx.assume("two-qubit depth = ASAP layering with a swap occupying three layers")
    ctx.bounds["files"] = [os.path.basename(p) for p, _, _ in files]


def replay_entry(body):
    path = os.path.join(tables.DATA_DIR, body["file"])
    m = tables._NAME.match(body["file"])
    n, conn = (int(m.group(2)), m.group(3)) if m else (None, None)
    for idx, msg in judge_file(path, n, conn):
        if idx == body["line"]:
            return msg
    return None


def replay_missing(body):
    found = {(n, c) for (_, n, c) in tables.table_files("stabilizer")}
    return None if (body["n"], body["conn"]) in found else "table still missing"


def replay_file(body):
    """Scan one whole table file (used to rebuild the call history of a later entry); verdict ignored."""
    path = os.path.join(tables.DATA_DIR, body["file"])
    m = tables._NAME.match(body["file"])
    n, conn = (int(m.group(2)), m.group(3)) if m else (None, None)
    msgs = ["line %d: %s" % (i, t) for i, t in judge_file(path, n, conn)]
    return "; ".join(msgs[:3]) if msgs else None


REPLAY = {"table_entry": replay_entry, "missing_table": replay_missing, "table_file": replay_file}
