"""C04 -- two-qubit cost and depth depend only on the LC class and equal the reported metadata."""
import os

from .. import core, model as M, conform, selftest, binding as B, tables, stategraph as SG
from .c01 import DELIVERED_ALPHABET

APIS = ("preparation", "readout", "compress")


def measure(n, conn, stab, src_ops):
    from .. import impl
    out = {}
    prep = impl.circuit_ops(impl.stabilizer_circuits.get_preparation_circuit(stab, conn))
    out["preparation"] = prep
    out["readout"] = impl.circuit_ops(impl.stabilizer_circuits.get_readout_circuit(stab, conn))
    src = src_ops if src_ops is not None else prep
    out["compress"] = impl.circuit_ops(impl.stabilizer_circuits.compress_preparation_circuit(impl.ops_to_circuit(src, n), conn))
    return out


def judge(n, conn, gens, fmt, trace):
    from .. import impl
    stab = impl.make_stabilizer(gens, n, fmt, trace)
    if stab is None:
        return None, None
    msgs = []
    circuits = measure(n, conn, stab, trace)
    cid = impl.class_id(stab)
    info = impl.lookup(n, conn, cid)
    comp = B.sg(n).component_of_gens(gens)
    vals = []
    for api in APIS:
        ops = circuits[api]
        bad = M.check_alphabet(ops, n, allowed=DELIVERED_ALPHABET)
        if bad:
            msgs.append("%s: %s" % (api, bad))
            vals.append(None)
            continue
        cost, depth = M.two_qubit_cost(ops), M.two_qubit_depth(ops, n)
        vals.append((cost, depth))
        if cost != info.cost or depth != info.depth:
            msgs.append("%s circuit has two-qubit cost/depth %d/%d, lookup metadata of class %d says %d/%d"
                        % (api, cost, depth, cid, info.cost, info.depth))
    return msgs, (n, conn, comp, tuple(vals), cid)


def check(ctx):
    ctx.phase("model self-checks")
    ctx.count("model_identities_checked", selftest.gate_rules_vs_matrices())
    for n in (2, 3, 4):
        SG.selfcheck(B.sg(n), ctx)
    ctx.phase("table metadata vs recomputed cost/depth (all entries)")
    for path, n, conn in tables.table_files("stabilizer"):
        if n is None:
            continue
        try:
            entries = tables.read_stabilizer_table(path, n)
        except tables.TableError as e:
            ctx.violation({"kind": "entry", "file": os.path.basename(path), "line": -1}, "entry: %s" % e)
            continue
        for idx, e in enumerate(entries):
            ctx.count("table_entries")
            msg = judge_entry(e, n)
            if msg:
                ctx.violation({"kind": "entry", "file": os.path.basename(path), "line": idx}, "entry: %s line %d: %s" % (os.path.basename(path), idx, msg))
    units = conform.standard_units(ctx.tier, sign_mode="light", thin=(3 if ctx.tier == "quick" else 2))
    obs = conform.run_units(ctx, judge, units)
    ctx.phase("class-constancy of the observed (cost, depth) per (configuration, component)")
    seen = {}
    for n, conn, comp, vals, cid, strs, fmt in obs:
        key = (n, conn, comp)
        ctx.count("observations")
        if key not in seen:
            seen[key] = (vals, cid, strs, fmt)
        elif seen[key][:2] != (vals, cid):
            first = seen[key]
            ctx.violation({"kind": "inconstant", "n": n, "conn": conn, "component": comp,
                           "a": {"gens": first[2], "fmt": first[3]}, "b": {"gens": strs, "fmt": fmt}},
                          "inconstant: n=%d %s: local-Clifford equivalent states %s (%s) and %s (%s) get (cost, depth) per API %r / id %d and %r / id %d"
                          % (n, conn, first[2], first[3], strs, fmt, first[0], first[1], vals, cid))
    ctx.count("components_observed", len(seen))
    ctx.count("transitions", ctx.counters.get("api_cases", 0))
    ctx.exhaustive = False
    ctx.notes["states_meaning"] = "distinct signed model states whose three delivered circuits were measured"
    ctx.assume("two-qubit depth = ASAP layering of two-qubit gates, swap = 3 layers and 3 gates")


def judge_entry(e, n):
    cost, depth = M.two_qubit_cost(e["gates"]), M.two_qubit_depth(e["gates"], n)
    if (cost, depth) != (e["cost"], e["depth"]):
        return "recorded cost/depth %d/%d, recomputed %d/%d" % (e["cost"], e["depth"], cost, depth)
    return None


def replay_case(body):
    n, conn, gens, fmt, trace = conform.case_from_json(body)
    try:
        msgs, _ = judge(n, conn, gens, fmt, trace)
    except Exception as ex:      # noqa: BLE001
        return "raised %s: %s" % (type(ex).__name__, ex)
    return "; ".join(msgs) if msgs else None


def replay_entry(body):
    path = os.path.join(tables.DATA_DIR, body["file"])
    m = tables._NAME.match(body["file"])
    n = int(m.group(2))
    try:
        entries = tables.read_stabilizer_table(path, n)
    except tables.TableError as e:
        return str(e)
    if body["line"] < 0 or body["line"] >= len(entries):
        return None
    return judge_entry(entries[body["line"]], n)


def replay_inconstant(body):
    """Re-observe the two recorded members of the component and compare."""
    n, conn = body["n"], body["conn"]
    g = B.sg(n)
    obs = []
    for side in ("a", "b"):
        gens = M.parse_gens(body[side]["gens"])
        _, ob = judge(n, conn, gens, body[side]["fmt"], None)
        obs.append((ob[3], ob[4], g.component_of_gens(gens)))
    if obs[0][2] != obs[1][2]:
        raise core.HarnessError("the two states are not in the same model component")
    return None if obs[0][:2] == obs[1][:2] else "observations %r vs %r for local-Clifford equivalent states" % (obs[0][:2], obs[1][:2])


REPLAY = {"case": replay_case, "entry": replay_entry, "inconstant": replay_inconstant}
