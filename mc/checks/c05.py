"""C05 -- delivered circuits use the minimum possible number of two-qubit gates.

Decided on the model: the optimum for (n, connectivity, class) is the 0/1-weighted
shortest-path distance from |0..0> in the explicitly enumerated state graph
(local gates weight 0, CZ on a coupled pair weight 1) -- computed by the C helper
on the full graph and, independently, by breadth-first search on the class
quotient built from the arc bitmaps.  Every competitor circuit over
{single-qubit Cliffords, CX, CZ, SWAP=3} on coupled pairs is a walk in that graph."""
import numpy as np

from .. import core, model as M, stategraph as SG, binding as B, selftest


def measured_costs(n, conn, gens):
    """Two-qubit cost of the circuits the three APIs deliver for this signed state."""
    from .. import impl
    stab = impl.make_stabilizer(gens, n, "matrices")
    out = {}
    prep = impl.circuit_ops(impl.stabilizer_circuits.get_preparation_circuit(stab, conn))
    out["preparation"] = M.two_qubit_cost(prep)
    out["readout"] = M.two_qubit_cost(impl.circuit_ops(impl.stabilizer_circuits.get_readout_circuit(stab, conn)))
    qc = impl.ops_to_circuit(prep, n)
    out["compress"] = M.two_qubit_cost(impl.circuit_ops(impl.stabilizer_circuits.compress_preparation_circuit(qc, conn)))
    return out


def judge_witness(n, conn, witness, dist, comp_expected=None):
    """The witness is a circuit over {h, s, cz} with `dist` CZ gates, all on coupled pairs.
    Returns (message or None, final generators)."""
    edges = M.edge_table(n, conn)
    bad = M.check_alphabet(witness, n, allowed=("h", "s", "cz"))
    if bad:
        return "witness: " + bad, None
    if M.off_edge(witness, edges):
        return "witness uses %r, not a coupled pair" % (M.off_edge(witness, edges),), None
    if M.two_qubit_cost(witness) != dist:
        return "witness has %d two-qubit gates, claimed optimum %d" % (M.two_qubit_cost(witness), dist), None
    gens = M.run(witness, n)
    if comp_expected is not None and B.sg(n).component_of_gens(gens) != comp_expected:
        return "witness ends in another component", None
    return None, gens


def _work(payload):
    """For a list of (component label c): model optimum, witness, library id, delivered costs."""
    from .. import impl
    n, conn, comps = payload
    g = B.sg(n)
    opt = g.opt_table(conn)
    out = []
    for c in comps:
        dist, sidx, witness = opt[c]
        msg, gens = judge_witness(n, conn, witness, dist, c)
        if msg:
            raise core.HarnessError("n=%d %s component %d: %s" % (n, conn, c, msg))
        if M.canon_unsigned(gens, n) != g.key(sidx):
            raise core.HarnessError("n=%d %s component %d: witness does not end in the recorded state" % (n, conn, c))
        # the witness, built as a real circuit, through the implementation's classifier
        stab = impl.Stabilizer(impl.ops_to_circuit(witness, n))
        if M.canon(impl.stabilizer_gens(stab), n) != M.canon(gens, n):
            raise core.HarnessError("n=%d %s component %d: Stabilizer(circuit) disagrees with the model on the witness" % (n, conn, c))
        cid = impl.class_id(stab)
        rec = {"comp": c, "class_id": cid, "opt": dist, "witness": witness, "state": M.gens_str(gens, n)}
        try:
            rec["costs"] = measured_costs(n, conn, gens)
            rec["table_cost"] = impl.lookup(n, conn, cid).cost
        except Exception as ex:      # noqa: BLE001
            rec["error"] = "%s: %s" % (type(ex).__name__, ex)
        out.append(rec)
    return out


def _graph_work(payload):
    """Delivered costs for graph states given in graph form (Graph object), vs the optimum of their component."""
    from .. import impl
    out = []
    for n, conn, gid in payload:
        g = B.sg(n)
        gens = B.graph_states_gens(n, gid)
        comp = g.component_of_gens(gens)
        rec = {"n": n, "conn": conn, "graph_id": gid, "comp": comp}
        try:
            stab = impl.Stabilizer(impl.Graph.decompress(n, gid))
            prep = impl.circuit_ops(impl.stabilizer_circuits.get_preparation_circuit(stab, conn))
            ro = impl.circuit_ops(impl.stabilizer_circuits.get_readout_circuit(impl.Stabilizer(M.gens_str(gens, n)), conn))
            rec["costs"] = {"preparation": M.two_qubit_cost(prep), "readout": M.two_qubit_cost(ro)}
        except Exception as ex:      # noqa: BLE001
            rec["error"] = "%s: %s" % (type(ex).__name__, ex)
        out.append(rec)
    return out


def check(ctx):
    quick = ctx.tier == "quick"
    ctx.phase("model self-checks")
    ctx.count("model_identities_checked", selftest.gate_rules_vs_matrices())
    for n in (2, 3, 4, 5, 6):
        SG.selfcheck(B.sg(n), ctx, stride=(4 if (quick and n >= 5) else 1))
    if not quick:
        ctx.phase("full rebuild of the n=5 and n=6 state graphs, scipy components, arcs")
        SG.full_recheck(5, ctx)
        SG.full_recheck(6, ctx)
    gaps = 0
    ctx.phase("quotient BFS vs full-graph 0/1 shortest paths, all 20 configurations")
    payloads = []
    for n, conn in M.CONFIGS:
        g = B.sg(n)
        edges = M.edge_table(n, conn)
        qd, narcs = g.quotient_dist(edges)
        opt = g.opt_table(conn)
        for c in range(g.K):
            if opt[c][0] != qd[c]:
                raise core.HarnessError("n=%d %s component %d: full-graph 0/1 distance %d, quotient BFS distance %d"
                                        % (n, conn, c, opt[c][0], qd[c]))
        ctx.count("states", g.N)
        ctx.count("transitions", g.N * (2 * n + len(edges)))
        ctx.count("quotient_nodes", g.K)
        ctx.count("quotient_arcs", narcs)
        payloads += [(n, conn, c) for c in core.chunk_list(list(range(g.K)), 1 if g.K < 20 else (4 if g.K < 100 else 24))]
    ctx.phase("witness circuits and delivered circuits through the implementation")
    results = core.pmap(_work, payloads)
    by_conf = {}
    for (n, conn, _), part in zip(payloads, results):
        by_conf.setdefault((n, conn), []).extend(part)
    by_conf_opt = {}
    for n, conn in M.CONFIGS:
        g = B.sg(n)
        recs = by_conf[(n, conn)]
        ids = sorted(r["class_id"] for r in recs)
        if ids != list(range(g.K)):
            ctx.violation({"kind": "binding", "n": n}, "binding: n=%d library ids of the component representatives are not 0..%d (C06)" % (n, g.K - 1))
        for r in recs:
            ctx.count("traces_validated_against_impl")
            case = {"kind": "gap", "n": n, "conn": conn, "class_id": r["class_id"], "state": r["state"],
                    "witness": [list(gt) for gt in r["witness"]], "optimum": r["opt"]}
            if "error" in r:
                ctx.violation(dict(case, kind="error"), "error: n=%d %s class %d state %s: API raised %s" % (n, conn, r["class_id"], r["state"], r["error"]))
                continue
            for api, cost in sorted(r["costs"].items()):
                ctx.count("api_calls")
                if cost < r["opt"]:
                    raise core.HarnessError("n=%d %s class %d: delivered %s circuit has %d two-qubit gates, model optimum %d"
                                            % (n, conn, r["class_id"], api, cost, r["opt"]))
            worst = max(r["costs"].values())
            if worst > r["opt"]:
                gaps += 1
                key = {"n": n, "conn": conn, "class_id": r["class_id"], "delivered": r["costs"]["preparation"], "optimum": r["opt"]}
                what = ("gap: n=%d %s class %d: delivered circuit for %s uses %d two-qubit gates (readout %d, compress %d, table %d); "
                        "a circuit with %d exists" % (n, conn, r["class_id"], r["state"], r["costs"]["preparation"], r["costs"]["readout"],
                                                      r["costs"]["compress"], r["table_cost"], r["opt"]))
                same = len(set(r["costs"].values())) == 1
                ctx.violation(dict(case, delivered=r["costs"]), what, key=key if same else None)
        optc = {r["comp"]: r for r in recs}
        by_conf_opt[(n, conn)] = optc
        hist = {}
        for r in recs:
            hist[r["opt"]] = hist.get(r["opt"], 0) + 1
        ctx.notes.setdefault("optimum_histogram", {})["%d-%s" % (n, conn)] = {str(k): v for k, v in sorted(hist.items())}
        mid = recs[len(recs) // 2]
        ctx.sample({"n": n, "conn": conn, "class_id": mid["class_id"], "state": mid["state"], "optimum": mid["opt"],
                    "delivered": mid.get("costs"), "witness": " ".join("%s%s" % (w[0], ",".join(map(str, w[1:]))) for w in mid["witness"])}, limit=20)
    # every graph state given in graph form: the delivered cost must be the optimum of its class too
    ctx.phase("graph states in graph form: delivered cost vs optimum of the class")
    B.warm()
    gp = []
    for n, conn in M.CONFIGS:
        ng = 1 << (n * (n - 1) // 2)
        if n <= 5:
            gp += [(n, conn, gid) for gid in range(ng)]
        else:
            k = M.configs_for(6).index(conn)
            gp += [(n, conn, gid) for gid in range(k, ng, 7 * (8 if quick else 1))]
    nch = core.NPROC * 2
    for part in core.pmap(_graph_work, [gp[k::nch] for k in range(nch)]):
        for r in part:
            ctx.count("graph_form_states")
            ref = by_conf_opt[(r["n"], r["conn"])][r["comp"]]
            case = {"kind": "gap", "n": r["n"], "conn": r["conn"], "class_id": ref["class_id"], "graph_id": r["graph_id"],
                    "state": M.gens_str(B.graph_states_gens(r["n"], r["graph_id"]), r["n"]), "graph_form": True,
                    "witness": [list(gt) for gt in ref["witness"]], "optimum": ref["opt"]}
            if "error" in r:
                ctx.violation(dict(case, kind="error"), "error: n=%d %s graph %d: API raised %s" % (r["n"], r["conn"], r["graph_id"], r["error"]))
                continue
            worst = max(r["costs"].values())
            if min(r["costs"].values()) < ref["opt"]:
                raise core.HarnessError("n=%d %s graph %d: delivered %r below the model optimum %d" % (r["n"], r["conn"], r["graph_id"], r["costs"], ref["opt"]))
            if worst > ref["opt"]:
                key = {"n": r["n"], "conn": r["conn"], "class_id": ref["class_id"], "delivered": worst, "optimum": ref["opt"]}
                same_as_listed = core.canon_json(key) in ctx.known
                ctx.violation(dict(case, delivered=r["costs"]),
                              "gap: n=%d %s graph %d (class %d) given in graph form: delivered %r two-qubit gates; a circuit with %d exists"
                              % (r["n"], r["conn"], r["graph_id"], ref["class_id"], r["costs"], ref["opt"]), key=key if same_as_listed else None)
    ctx.count("gaps_observed", gaps)
    ctx.exhaustive = True
    ctx.notes["states_meaning"] = "states of U_n over which the 0/1 shortest-path search ran (all of them, per configuration)"
    ctx.notes["traces_meaning"] = "witness circuits (one per class and configuration) built as QuantumCircuit, read back through Stabilizer(circuit), classified by the library and compared with the delivered circuits' cost"
    ctx.assume("every two-qubit gate in {CX, CZ} equals CZ up to single-qubit Cliffords; a SWAP is three of them and is counted as three")
    ctx.assume("n=6 model artefacts come from setup_cmd (quick) and are rebuilt and compared in the thorough tier")


def replay_gap(body):
    """Independent confirmation: simulate the witness, check its gates against the edge
    table, then ask the library for a circuit for exactly the state the witness prepares."""
    n, conn = body["n"], body["conn"]
    witness = [tuple(w) for w in body["witness"]]
    msg, gens = judge_witness(n, conn, witness, body["optimum"])
    if msg:
        raise core.HarnessError(msg)
    from .. import impl
    if body.get("graph_form"):
        # the failing request is the graph given in graph form; the witness prepares a local-Clifford equivalent
        # state (same component in the model), so `optimum` two-qubit gates + single-qubit gates suffice for it too
        gid = body["graph_id"]
        if B.sg(n).component_of_gens(gens) != B.sg(n).component_of_gens(B.graph_states_gens(n, gid)):
            raise core.HarnessError("witness is not local-Clifford equivalent to the graph state")
        stab = impl.Stabilizer(impl.Graph.decompress(n, gid))
        try:
            costs = {"preparation": M.two_qubit_cost(impl.circuit_ops(impl.stabilizer_circuits.get_preparation_circuit(stab, conn))),
                     "readout": M.two_qubit_cost(impl.circuit_ops(impl.stabilizer_circuits.get_readout_circuit(stab, conn)))}
        except Exception as ex:     # noqa: BLE001
            return "API raised %s" % type(ex).__name__ if body["kind"] == "error" else None
        if body["kind"] == "error":
            return None
        if max(costs.values()) > body["optimum"]:
            return "library delivers %r two-qubit gates for graph %d in graph form; %d suffice (witness + single-qubit gates)" % (costs, gid, body["optimum"])
        return None
    try:
        costs = measured_costs(n, conn, gens)
    except Exception as ex:     # noqa: BLE001
        return "API raised %s" % type(ex).__name__ if body["kind"] == "error" else None
    if body["kind"] == "error":
        return None
    if max(costs.values()) > body["optimum"]:
        return "library delivers %r two-qubit gates for %s; the witness circuit prepares the same state with %d" % (
            costs, M.gens_str(gens, n), body["optimum"])
    return None


def replay_binding(body):
    n = body["n"]
    ids = B.component_ids(n)
    return None if sorted(ids) == list(range(M.N_CLASSES[n])) else "ids %r" % sorted(ids)[:10]


REPLAY = {"gap": replay_gap, "error": replay_gap, "binding": replay_binding}
