"""C11 -- tomography / stabilizer measurement of an ordered qubit subset reconstructs that
subset's reduced state.  Same decomposition as C10 with a register of N qubits and an
ordered list of m measured qubits: point masses on ALL 2^N full-register outcomes decide
the marginalisation; end-to-end runs on all signed stabilizer states of the register."""
import itertools

from .. import core, model as M, binding as B, selftest, tomo, programs
from . import c10
from .c02 import measured_lists


def _work(payload):
    fails = []
    cnt = 0
    hist = core.History()
    for item in payload:
        cnt += 1
        kind, m, conn, N, qubits, prep_ops, spec, dens, group = item
        try:
            msgs = c10.judge(m, conn, N, qubits, [tuple(g) for g in prep_ops], tuple(spec), kind=kind, group=group, check_density=dens)
        except Exception as ex:      # noqa: BLE001
            import traceback
            msgs = ["raised %s: %s" % (type(ex).__name__, traceback.format_exc()[-300:])]
        case = {"kind": "fit", "fitter": kind, "m": m, "conn": conn, "N": N, "qubits": qubits,
                "prep": [list(g) for g in prep_ops], "dist": list(spec), "density": dens, "group": group}
        if msgs:
            cj = hist.attach(case)
            for msg in msgs[:2]:
                fails.append((msg, cj))
        hist.add(case)
    return cnt, fails


def group_for(m, k=0):
    """A measured stabilizer group on m qubits for the stabilizer-measurement fitter (entangled, asymmetric)."""
    gid = [(1 << (m * (m - 1) // 2)) - 1, sum(1 << i for i in range(m - 1))][k % 2]
    gens = M.run(M.local_layer_gates([(q * 2 + 1 + k) % 6 for q in range(m)]), m, B.graph_states_gens(m, gid))
    return M.gens_str([M.herm(p[0], p[1], (j + k) & 1) for j, p in enumerate(gens)], m)


def run_items(ctx, label, items):
    ctx.phase("%s (%d fitter runs)" % (label, len(items)))
    nch = max(1, min(len(items), core.NPROC * 2))
    for cnt, fails in core.pmap(_work, [items[k::nch] for k in range(nch)]):
        ctx.count("evaluations", cnt)
        for m, case in sorted(fails, key=lambda t: (len(core.canon_json(t[1])), core.canon_json(t[1]))):
            ctx.violation(case, "fit: %s m=%d %s N=%d qubits=%s dist=%s prep=[%s]: %s" % (
                case["fitter"], case["m"], case["conn"], case["N"], case["qubits"], case["dist"], programs.show(case["prep"])[:60], m))
    ctx.bounds.setdefault("explored", {})[label] = len(items)


def check(ctx):
    quick = ctx.tier == "quick"
    ctx.count("model_identities_checked", selftest.gate_rules_vs_matrices())
    B.warm((2, 3, 4))
    # (B') point masses on all full-register outcomes
    batches = {}
    for m, conn in M.CONFIGS:
        for N in ([m + 1, m + 2] if m <= 3 else ([m + 1] if m < 6 else [7])):
            lists = measured_lists(m, N)
            units = [0, (1 << N) - 1] + [1 << q for q in range(N)]
            outs = list(range(1 << N))
            if quick:
                if m == 4 and conn != "all":
                    lists, outs = lists[:2] + lists[-2:], units
                elif m == 4:
                    lists = lists[::2]
                elif m == 5:
                    lists, outs = lists[:2] + lists[-2:], units
                elif m == 6:
                    if conn not in ("all", "linear", "H"):
                        continue
                    lists, outs = [lists[1], lists[-1]], units[:5]
            elif m == 6:
                lists, outs = lists[:8], units + [0b1011010, 0b0100101]
            items = batches.setdefault(m, [])
            for ql in lists:
                for b in outs:
                    items.append(("tomography", m, conn, N, ql, [], ("point", b), False, None))
                    if m <= 5:
                        items.append(("stabilizer", m, conn, N, ql, [], ("point", b), False, group_for(m, b)))
    for m, items in sorted(batches.items()):
        ctx.count("states", len(items))
        run_items(ctx, "m=%d: ordered measured lists x point-mass outcomes on the full register, all configurations, both fitters" % m, items)
    # affinity on the full register: every two-outcome mixture with unequal weights -- in particular pairs of
    # outcomes that agree on the measured qubits (they must be ADDED in the marginal) and pairs that do not
    items = []
    for (m, N, conn) in ((2, 3, "all"), (2, 4, "all"), (3, 4, "linear")):
        lists = measured_lists(m, N)
        for k, ql in enumerate(lists if not quick else lists[::2]):
            for b, b2 in itertools.combinations(range(1 << N), 2):
                if quick and N == 4 and (b * 7 + b2 + k) % 4:
                    continue
                items.append(("tomography", m, conn, N, ql, [], ("mix3", b, b2, (b + b2 + 1) % (1 << N), 1, 3, 2), False, None))
                if (b + b2) % 3 == 0:
                    items.append(("stabilizer", m, conn, N, ql, [], ("mix", b, b2, 0.25, 0.75), False, group_for(m, b)))
    ctx.count("states", len(items))
    run_items(ctx, "affinity: two- and three-outcome mixtures with unequal weights on the full register (colliding and non-colliding marginals)", items)
    if not quick:
        items = []
        for ql in ([7, 0, 3, 5, 1, 6], [2, 3, 4, 5, 6, 7], [7, 6, 5, 4, 3, 2]):
            for b in [0, 255] + [1 << q for q in range(8)]:
                items.append(("tomography", 6, "linear", 8, ql, [], ("point", b), False, None))
        run_items(ctx, "m=6 linear N=8: three lists x unit outcomes", items)
    # (C') end to end on every signed stabilizer state of a 3-qubit register, every ordered subset
    g3 = B.sg(3)
    items = []
    for i in range(g3.N):
        for s in range(8):
            tr = programs.decorated_trace(g3, i, s)
            pairs = [list(p) for p in itertools.permutations(range(3), 2)]
            for ql in (pairs if not quick else [pairs[(i + s) % 6], pairs[(i + s + 3) % 6]]):
                items.append(("tomography", 2, "all", 3, ql, tr, ("state",), True, None))
            k = (i + s) % 6
            ql = [list(p) for p in itertools.permutations(range(3), 3)][k]
            items.append(("tomography", 3, ("all", "linear")[s % 2], 3, ql, tr, ("state",), True, None))
            ql2 = [list(p) for p in itertools.permutations(range(3), 2)][k]
            items.append(("stabilizer", 2, "all", 3, ql2, tr, ("state",), False, group_for(2, i)))
    ctx.count("states", len(items))
    ctx.count("transitions", len(items))
    run_items(ctx, "N=3: end to end, all 1080 signed states x every ordered pair (and one permutation of all three)", items)
    g4 = B.sg(4)
    items = []
    perms2 = [list(p) for p in itertools.permutations(range(4), 2)]
    perms3 = [list(p) for p in itertools.permutations(range(4), 3)]
    for i in range(0, g4.N, (40 if quick else 2)):
        for s in ([i % 16] if quick else [i % 16, (i * 7 + 3) % 16]):
            tr = programs.decorated_trace(g4, i, s)
            items.append(("tomography", 2, "all", 4, perms2[(i + s) % 12], tr, ("state",), True, None))
            items.append(("tomography", 3, ("all", "linear")[i % 2], 4, perms3[(i + s) % 24], tr, ("state",), i % 3 == 0, None))
            items.append(("stabilizer", 3, ("linear", "all")[i % 2], 4, perms3[(i * 5 + s) % 24], tr, ("state",), False, group_for(3, i)))
    ctx.count("states", len(items))
    run_items(ctx, "N=4: end to end, signed states x ordered pairs / triples", items)
    # non-stabilizer probes on a subset
    items = []
    for pr in c10.PROBES:
        prep = list(pr) + [("cx", 1, 2), ("t", 2), ("h", 2)]
        for ql in ([0, 1], [1, 0], [2, 0], [1, 2], [2, 1]):
            items.append(("tomography", 2, "all", 3, ql, prep, ("dense",), False, None))
    run_items(ctx, "N=3: non-stabilizer probes, asymmetric pairs", items)
    ctx.sample({"m": 2, "N": 3, "qubits": [0, 1], "distribution": "point mass on outcome 1 ('001')",
                "expected": "the marginal on (q0,q1) is (1,0): <ZI>=-1 in list order"})
    ctx.count("transitions", ctx.counters["evaluations"])
    ctx.count("traces_validated_against_impl", ctx.counters["evaluations"])
    ctx.count("distinct_nontrivial", ctx.counters["evaluations"])
    ctx.exhaustive = False
    ctx.rule = "one fitter evaluation per (fitter, m, configuration, N, ordered list, preparation, distribution); all distinct"
    ctx.assume("same linearity reduction as C10; expectations are compared in both full_hilbert_space modes")
    ctx.assume("measured_qubits are given as integers (Qubit objects are not exercised)")


REPLAY = {"fit": c10.replay}
