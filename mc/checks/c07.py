"""C07 -- circuit compression preserves the prepared state for every Clifford circuit,
obeys the connectivity, has the class cost whatever the input length, and leaves the
input circuit object unmodified."""
import copy

from .. import core, model as M, binding as B, selftest, conform, programs
from .c01 import DELIVERED_ALPHABET


def snapshot(qc):
    from .. import impl
    return (impl.circuit_ops(qc, keep_measure=True), qc.num_qubits, qc.num_clbits, qc.name, complex(qc.global_phase),
            copy.deepcopy(qc.metadata), [r.name for r in qc.qregs], [r.name for r in qc.cregs], len(qc.data))


def judge(n, conn, prog, qc=None):
    """prog: the gate list the model runs. qc: the circuit object handed to the library (default: built from prog
    gate by gate; the chained family passes an object the library itself returned and the caller then extended)."""
    from .. import impl
    if qc is None:
        qc = impl.ops_to_circuit(prog, n)
        qc.name = "input-circuit"
        qc.metadata = {"tag": [1, 2, 3]}
    before = snapshot(qc)
    clone = qc.copy()
    out = impl.stabilizer_circuits.compress_preparation_circuit(qc, conn)
    msgs = []
    if snapshot(qc) != before or not (qc == clone):
        msgs.append("the input circuit object was modified")
    if out is qc:
        msgs.append("the input circuit object itself was returned")
    ops = impl.circuit_ops(out, keep_measure=True)
    bad = M.check_alphabet(ops, n, allowed=DELIVERED_ALPHABET)
    if bad:
        return msgs + ["compressed circuit: " + bad]
    if out.num_qubits != n:
        msgs.append("compressed circuit has %d qubits" % out.num_qubits)
    want_gens = M.run(prog, n)
    want = M.canon(want_gens, n)
    got = M.canon(M.run(ops, n), n)
    if got != want:
        msgs.append("compressed circuit prepares %s, the input prepares %s" % (
            [M.pauli_str(M.herm(*r), n) for r in got], [M.pauli_str(M.herm(*r), n) for r in want]))
    off = M.off_edge(ops, M.edge_table(n, conn))
    if off:
        msgs.append("compressed circuit uses %r on an uncoupled pair" % (off,))
    cid = impl.class_id(impl.make_stabilizer(want_gens, n, "matrices"))
    info = impl.lookup(n, conn, cid)
    cost = M.two_qubit_cost(ops)
    if cost != info.cost:
        msgs.append("compressed circuit has %d two-qubit gates, the class (%d) cost is %d (input had %d gates, %d two-qubit)"
                    % (cost, cid, info.cost, len(prog), M.two_qubit_cost(prog)))
    return msgs


def judge_chain(n, conn1, prog, ext, conn2, how):
    """Compress `prog` for conn1; the caller then extends the RETURNED circuit object by `ext`
    (how = "inplace": gate methods on the object itself; "compose": result.compose(extension circuit);
    "copy": the same on result.copy()); that circuit is compressed for conn2 and judged like any other input:
    it is a Clifford circuit over the documented gate set whatever object it lives in."""
    from .. import impl
    first = impl.stabilizer_circuits.compress_preparation_circuit(impl.ops_to_circuit(prog, n), conn1)
    mid_ops = impl.circuit_ops(first, keep_measure=True)
    bad = M.check_alphabet(mid_ops, n, allowed=DELIVERED_ALPHABET)
    if bad:
        return ["first compression: " + bad]
    if how == "compose":
        second_in = first.compose(impl.ops_to_circuit(ext, n))
    else:
        second_in = first if how == "inplace" else first.copy()
        for g in ext:
            if g[0] in ("i", "id"):
                second_in.id(g[1])
            else:
                getattr(second_in, g[0])(*g[1:])
    full = [tuple(g) for g in impl.circuit_ops(second_in, keep_measure=True)]
    if full != [tuple(g) for g in mid_ops] + [tuple(g) for g in ext]:
        raise core.HarnessError("the extended circuit does not read back as result + extension")
    msgs = judge(n, conn2, full, qc=second_in)
    # the model's state of (prog + ext) is the independent expectation for the state of the second result's input
    if M.canon(M.run(full, n), n) != M.canon(M.run(list(prog) + list(ext), n), n):
        msgs.append("first compression does not prepare the input's state")
    return ["after compress(%s) and %s extension by [%s]: %s" % (conn1, how, programs.show([list(g) for g in ext]), m) for m in msgs]


def _work_chain(payload):
    fails = []
    cnt = 0
    hist = core.History()
    for n, conn1, prog, ext, conn2, how in payload:
        prog = [tuple(g) for g in prog]
        ext = [tuple(g) for g in ext]
        cnt += 1
        try:
            msgs = judge_chain(n, conn1, prog, ext, conn2, how)
        except core.HarnessError:
            raise
        except Exception as ex:      # noqa: BLE001
            msgs = ["raised %s: %s" % (type(ex).__name__, str(ex)[:160])]
        case = {"kind": "chain", "n": n, "conn": conn1, "program": [list(g) for g in prog], "ext": [list(g) for g in ext],
                "conn2": conn2, "how": how}
        if msgs:
            cj = hist.attach(case)
            for m in msgs[:2]:
                fails.append((m, cj))
        hist.add(case)
    return cnt, fails


def run_chain(ctx, label, items):
    ctx.phase("%s (%d chains)" % (label, len(items)))
    nch = max(1, min(len(items), core.NPROC * 2))
    for cnt, fails in core.pmap(_work_chain, [items[k::nch] for k in range(nch)]):
        ctx.count("evaluations", cnt)
        ctx.count("chained_compressions", cnt)
        for m, case in sorted(fails, key=lambda t: (len(t[1]["program"]) + len(t[1]["ext"]), core.canon_json(t[1]))):
            ctx.violation(case, "chain: n=%d %s->%s [%s]: %s" % (case["n"], case["conn"], case["conn2"], programs.show(case["program"])[:160], m))
    ctx.bounds.setdefault("explored", {})[label] = len(items)


def _work(payload):
    fails = []
    cnt = 0
    maxlen = 0
    hist = core.History()
    for n, conn, prog in payload:
        prog = [tuple(g) for g in prog]
        cnt += 1
        maxlen = max(maxlen, len(prog))
        try:
            msgs = judge(n, conn, prog)
        except Exception as ex:      # noqa: BLE001
            msgs = ["raised %s: %s" % (type(ex).__name__, str(ex)[:160])]
        case = {"kind": "program", "n": n, "conn": conn, "program": [list(g) for g in prog]}
        if msgs:
            cj = hist.attach(case)
            for m in msgs[:2]:
                fails.append((m, cj))
        hist.add(case)
    return cnt, maxlen, fails


def run_items(ctx, label, items):
    ctx.phase("%s (%d programs)" % (label, len(items)))
    nch = max(1, min(len(items), core.NPROC * 2))
    for cnt, maxlen, fails in core.pmap(_work, [items[k::nch] for k in range(nch)]):
        ctx.count("evaluations", cnt)
        ctx.counters["max_program_length"] = max(ctx.counters.get("max_program_length", 0), maxlen)
        for m, case in sorted(fails, key=lambda t: (len(t[1]["program"]), core.canon_json(t[1]))):
            ctx.violation(case, "program: n=%d %s [%s]: %s" % (case["n"], case["conn"], programs.show(case["program"])[:200], m))
    ctx.bounds.setdefault("explored", {})[label] = len(items)


def check(ctx):
    quick = ctx.tier == "quick"
    ctx.count("model_identities_checked", selftest.gate_rules_vs_matrices())
    B.warm((2, 3, 4, 5))
    # (a) every two-qubit Clifford unitary, by a shortest program
    ctx.phase("BFS over the Cayley graph of the two-qubit Clifford group")
    cl2, tr = programs.clifford2_programs()
    if len(cl2) != 11520:
        raise core.HarnessError("two-qubit Clifford group has %d elements in the model, expected 11520" % len(cl2))
    ctx.count("states", len(cl2))
    ctx.count("transitions", tr)
    progs = sorted(cl2.values(), key=lambda p: (len(p), p))
    run_items(ctx, "n=2: one shortest program per two-qubit Clifford unitary", [(2, "all", p) for p in (progs if not quick else progs[::2])])
    # (b) all short programs
    run_items(ctx, "n=2: all programs of length <= 3", [(2, "all", p) for p in programs.all_programs(2, 3)][::(2 if quick else 1)])
    p3 = programs.all_programs(3, 2)
    run_items(ctx, "n=3: all programs of length <= 2", [(3, ("all", "linear")[k % 2], p) for k, p in enumerate(p3)])
    # (c) full-alphabet BFS over signed states, each trace extended by every gate ("start from non-initial states")
    ctx.phase("BFS over all signed 3-qubit states with the full gate set")
    s3, tr = programs.full_alphabet_bfs(3)
    if len(s3) != 1080:
        raise core.HarnessError("model reaches %d signed 3-qubit states, expected 1080" % len(s3))
    ctx.count("states", len(s3))
    ctx.count("transitions", tr)
    sigma3 = programs.alphabet(3, ordered_symmetric=False)
    items = []
    for k, (st, p) in enumerate(sorted(s3.items(), key=lambda t: (len(t[1]), t[1]))):
        items.append((3, ("all", "linear")[k % 2], p))
        ext = sigma3 if not quick else sigma3[k % 3::3]
        for g in ext:
            items.append((3, ("linear", "all")[k % 2], p + [g]))
    run_items(ctx, "n=3: shortest full-alphabet program of every signed state, extended by %s gate" % ("every" if not quick else "every third"), items)
    for n in (2, 3, 4):
        g = B.sg(n)
        confs = M.configs_for(n)
        step = 1 if (n < 4 or not quick) else 8
        items = [(n, confs[(i + s) % len(confs)], programs.decorated_trace(g, i, s)) for i in range(0, g.N, step) for s in range(1 << n)]
        if n == 4 and quick:
            items = items[::2]
        ctx.count("states", len(items))
        run_items(ctx, "n=%d: decorated BFS trace programs of signed states%s" % (n, "" if step == 1 else " (subset)"), items)
    # (d) length independence
    g3 = B.sg(3)
    items = []
    for i in range(0, g3.N, (3 if quick else 1)):
        base = programs.decorated_trace(g3, i, i % 8)
        for p in programs.redundant_insertions(base, 3)[::(2 if quick else 1)]:
            items.append((3, ("all", "linear")[i % 2], p))
        items.append((3, "linear", base * 3 + M.inverse_gates(base) * 2))
    run_items(ctx, "n=3: redundant pairs inserted at every position; trace x3 then inverse x2", items)
    g4 = B.sg(4)
    items = []
    for i in range(0, g4.N, (64 if quick else 8)):
        base = programs.decorated_trace(g4, i, i % 16)
        items.append((4, M.configs_for(4)[i % 4], base * 5 + M.inverse_gates(base) * 4))
        items.append((4, M.configs_for(4)[(i + 1) % 4], base + [("swap", 0, 3), ("swap", 0, 3)] * 20 + [("h", 1), ("h", 1)] * 30))
    run_items(ctx, "n=4: long programs (trace x5, inverse x4; 100 redundant gates appended)", items)
    # length ladder: the same states reached by programs of 255 .. 4097 gates (around the powers of two)
    items = []
    for n in (2, 3, 4, 5, 6):
        g = B.sg(n)
        confs = M.configs_for(n)
        for k, i in enumerate(range(g.N // 3, g.N, max(1, g.N // (3 if quick else 8)))):
            base = programs.decorated_trace(g, i, (k * 5 + 1) % (1 << n))
            if not base:
                continue
            pad = []
            for q in range(n):
                pad += [("s", q), ("h", q), ("sdg", q), ("h", q), ("h", q), ("s", q), ("h", q), ("sdg", q)]     # identity, 8 gates per qubit
            pad += [("cx", 0, n - 1), ("y", 0), ("cx", 0, n - 1), ("y", 0), ("x", n - 1)] + [("x", n - 1)]        # identity up to phase
            for target in ([255, 1023, 1025, 2049] if quick else [255, 256, 257, 511, 513, 1023, 1024, 1025, 2047, 2049, 4097]):
                prog = list(base)
                while len(prog) + len(pad) <= target:
                    prog = prog + pad
                prog = prog + [("id", 0)] * (target - len(prog))
                items.append((n, confs[(k + target) % len(confs)], prog))
    run_items(ctx, "length ladder: programs of 255..%d gates (identity paddings with S, Sdg, H, CX, Y around a trace)" % (2049 if quick else 4097), items)
    # n = 5, 6: table graph states and rotated ones, decorated
    for n in (5, 6):
        g = B.sg(n)
        items = []
        confs = M.configs_for(n)
        for k, gid in enumerate(conform.rep_gids(n)[::(1 if n == 5 else (12 if quick else 2))]):
            gens = M.run(M.local_layer_gates([(k + q) % 6 for q in range(n)]), n, B.graph_states_gens(n, gid))
            i = g.index_of(M.canon_unsigned(gens, n))
            for c in (confs if not quick else [confs[k % len(confs)], confs[(k + 3) % len(confs)]]):
                items.append((n, c, programs.decorated_trace(g, i, (k * 5) % (1 << n))))
        ctx.count("states", len(items))
        run_items(ctx, "n=%d: decorated traces of rotated table graph states" % n, items)
    # every table entry of every configuration is reached through compress at least once
    items = []
    for n, conn in M.CONFIGS:
        g = B.sg(n)
        for k, gid in enumerate(conform.table_graphs(n, conn)):
            gens = M.run(M.local_layer_gates([(k + 2 * q + 1) % 6 for q in range(n)]), n, B.graph_states_gens(n, gid))
            i = g.index_of(M.canon_unsigned(gens, n))
            items.append((n, conn, programs.decorated_trace(g, i, (k * 11 + 3) % (1 << n))))
    ctx.count("states", len(items))
    run_items(ctx, "all 20 configurations x every class: decorated trace of the (locally rotated) table graph state", items)
    # (e) chained use: the circuit returned by compress is extended by the caller and compressed again
    #     ("start from non-initial states": the second input is an object the library produced)
    items = []
    hows = ("inplace", "compose", "copy")
    g3 = B.sg(3)
    sig3 = programs.alphabet(3, ordered_symmetric=False)
    c3 = M.configs_for(3)
    k = 0
    for i in range(0, g3.N, (9 if quick else 1)):
        base = programs.decorated_trace(g3, i, i % 8)
        for g in sig3:                                     # every single-gate extension, same and other connectivity
            items.append((3, c3[k % 2], base, [g], c3[(k // 2) % 2], hows[k % 3]))
            k += 1
        items.append((3, c3[i % 2], base, M.inverse_gates(base), c3[i % 2], hows[i % 3]))          # back to |000>: cost 0
        items.append((3, c3[i % 2], base, [], c3[i % 2], hows[i % 3]))                               # compress(compress(c))
    for n in (2, 4, 5, 6):
        g = B.sg(n)
        confs = M.configs_for(n)
        sig = programs.alphabet(n, ordered_symmetric=False)
        two = [x for x in sig if len(x) == 3]
        for j, i in enumerate(range(0, g.N, max(1, g.N // ((12 if quick else 60) if n > 2 else g.N)))):
            base = programs.decorated_trace(g, i, (j * 7 + 1) % (1 << n))
            for c in (confs if n <= 4 or not quick else [confs[j % len(confs)]]):
                e1 = [two[(j * 3 + t) % len(two)] for t in range(3)]
                items.append((n, c, base, e1, c, hows[j % 3]))
                items.append((n, c, base, M.inverse_gates(base), c, hows[(j + 1) % 3]))
                items.append((n, c, base, [sig[(j * 5) % len(sig)]], confs[(j + 1) % len(confs)], hows[(j + 2) % 3]))
    run_chain(ctx, "chained: compress, extend the returned circuit (in place / compose / copy), compress again", items)
    if not quick:
        g5 = B.sg(5)
        items = [(5, M.configs_for(5)[i % 6], programs.decorated_trace(g5, i, i % 32)) for i in range(0, g5.N, 4)]
        run_items(ctx, "n=5: decorated traces of every 4th group", items)
    ctx.sample({"n": 3, "conn": "linear", "program": programs.show(programs.decorated_trace(g3, 100, 3))})
    ctx.count("traces_validated_against_impl", ctx.counters["evaluations"])
    ctx.count("distinct_nontrivial", ctx.counters["evaluations"])
    ctx.exhaustive = False
    ctx.rule = "programs enumerated as listed in bounds (all distinct gate sequences); the longest has max_program_length gates"
    ctx.notes["states_meaning"] = "Clifford-group elements / signed states reached by the program searches; transitions = gate applications in those searches"
    ctx.assume("unbounded program length is covered only through the listed long programs (up to a few hundred gates)")


def replay(body):
    try:
        msgs = judge(body["n"], body["conn"], [tuple(g) for g in body["program"]])
    except Exception as ex:      # noqa: BLE001
        msgs = ["raised %s: %s" % (type(ex).__name__, ex)]
    return "; ".join(msgs) if msgs else None


def replay_chain(body):
    try:
        msgs = judge_chain(body["n"], body["conn"], [tuple(g) for g in body["program"]], [tuple(g) for g in body["ext"]],
                           body["conn2"], body["how"])
    except Exception as ex:      # noqa: BLE001
        msgs = ["raised %s: %s" % (type(ex).__name__, ex)]
    return "; ".join(msgs) if msgs else None


REPLAY = {"program": replay, "chain": replay_chain}
