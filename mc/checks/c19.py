"""C19 -- graph and class codecs are bijective and local complementation is faithful."""
import itertools
import numpy as np

from .. import core, model as M, binding as B, selftest


def adj_from_masks(n, masks):
    a = np.zeros((n, n), dtype=np.int8)
    for v in range(n):
        for w in range(n):
            a[v, w] = (masks[v] >> w) & 1
    return a


def lc_masks(n, masks, v):
    """Independent local complementation on neighbour bit masks."""
    out = list(masks)
    nb = [w for w in range(n) if (masks[v] >> w) & 1]
    for a, b in itertools.combinations(nb, 2):
        out[a] ^= 1 << b
        out[b] ^= 1 << a
    return out


def judge_graph(n, gid, with_lib_class):
    """All codec / local-complementation clauses for one graph id. Returns (messages, counters)."""
    from .. import impl
    msgs = []
    masks = M.graph_id_to_masks(n, gid)
    g = impl.Graph.decompress(n, gid)
    adj = np.asarray(g.adjacency_matrix)
    if g.num_vertices != n or adj.shape != (n, n) or not np.array_equal(adj, adj_from_masks(n, masks)):
        msgs.append("decompress(%d, %d) is not the graph with edge k at the k-th pair (row-major)" % (n, gid))
    if g.compress() != gid:
        msgs.append("compress(decompress(%d)) = %d" % (gid, g.compress()))
    g2 = impl.Graph(adj_from_masks(n, masks))
    if g2.compress() != gid:
        msgs.append("compress of the independently built adjacency matrix gives %d, expected %d" % (g2.compress(), gid))
    if sorted(g2.get_edges()) != sorted((a, b) for a in range(n) for b in range(a + 1, n) if (masks[a] >> b) & 1):
        msgs.append("get_edges() wrong for graph %d" % gid)
    sg = B.sg(n)
    comp0 = sg.component_of_gens(M.graph_state_gens(n, masks))
    id0 = impl.class_id(impl.Stabilizer(g2)) if with_lib_class else None
    ntrans = 0
    for v in range(n):
        ntrans += 1
        h = g2.copy()
        before = np.array(h.adjacency_matrix, copy=True)
        h.local_complementation(v)
        want = lc_masks(n, masks, v)
        a = np.asarray(h.adjacency_matrix)
        if not np.array_equal(a, adj_from_masks(n, want)):
            msgs.append("local_complementation(%d) of graph %d gives graph with adjacency %s, expected graph %d"
                        % (v, gid, a.tolist(), M.masks_to_graph_id(n, want)))
            continue
        if a.dtype.kind not in "iu" or np.any(np.diag(a)) or not np.array_equal(a, a.T) or not np.isin(a, (0, 1)).all():
            msgs.append("local_complementation(%d) of graph %d is not a simple graph" % (v, gid))
        h.local_complementation(v)
        if not np.array_equal(np.asarray(h.adjacency_matrix), before):
            msgs.append("local complementation at %d twice is not the identity on graph %d" % (v, gid))
        k = g2.local_complemented(v)
        if not np.array_equal(np.asarray(k.adjacency_matrix), adj_from_masks(n, want)) or \
                not np.array_equal(np.asarray(g2.adjacency_matrix), adj_from_masks(n, masks)):
            msgs.append("local_complemented(%d) wrong or modifies the graph %d" % (v, gid))
        if sg.component_of_gens(M.graph_state_gens(n, want)) != comp0:
            raise core.HarnessError("model: local complementation changes the LC component (graph %d vertex %d)" % (gid, v))
        if with_lib_class:
            idv = impl.class_id(impl.Stabilizer(k))
            if idv != id0:
                msgs.append("class id changes from %d to %d under local complementation of graph %d at vertex %d" % (id0, idv, gid, v))
    return msgs, ntrans


def _work(payload):
    n, gids, with_lib = payload
    fails = []
    trans = 0
    for gid in gids:
        try:
            msgs, nt = judge_graph(n, gid, with_lib)
        except core.HarnessError:
            raise
        except Exception as ex:     # noqa: BLE001
            msgs, nt = ["raised %s: %s" % (type(ex).__name__, ex)], 0
        trans += nt
        for m in msgs:
            fails.append((gid, m))
    return len(gids), trans, fails


# ------------------------------------------------------------------------------ operation sequences on one Graph object

def graph_ops(n):
    ops = [("compress",), ("clear",), ("copy",)]
    ops += [("lc", v) for v in range(n)]
    ops += [("lcd", v) for v in range(n)]        # local_complemented: returns a NEW graph, the sequence continues on it
    for a in range(n):
        for b in range(a + 1, n):
            ops += [("add", a, b), ("remove", a, b), ("swap", a, b)]
    return ops


def model_apply(n, masks, op):
    masks = list(masks)
    if op[0] in ("lc", "lcd"):
        return lc_masks(n, masks, op[1])
    if op[0] == "clear":
        return [0] * n
    if op[0] in ("add", "remove"):
        a, b = op[1], op[2]
        if op[0] == "add":
            masks[a] |= 1 << b
            masks[b] |= 1 << a
        else:
            masks[a] &= ~(1 << b)
            masks[b] &= ~(1 << a)
        return masks
    if op[0] == "swap":
        a, b = op[1], op[2]
        perm = list(range(n))
        perm[a], perm[b] = b, a
        out = [0] * n
        for v in range(n):
            for w in range(n):
                if (masks[v] >> w) & 1:
                    out[perm[v]] |= 1 << perm[w]
        return out
    return masks            # compress / copy: pure observers


def lib_apply(g, op):
    if op[0] == "lc":
        g.local_complementation(op[1])
    elif op[0] == "clear":
        g.clear()
    elif op[0] == "add":
        g.add_edge(op[1], op[2])
    elif op[0] == "remove":
        g.remove_edge(op[1], op[2])
    elif op[0] == "swap":
        g.swap(op[1], op[2])
    elif op[0] == "compress":
        g.compress()
    elif op[0] == "copy":
        return g.copy()
    elif op[0] == "lcd":
        return g.local_complemented(op[1])
    return g


def observe_mismatch(n, g, masks):
    from .. import impl
    want = M.masks_to_graph_id(n, masks)
    a = np.asarray(g.adjacency_matrix)
    if not np.array_equal(a, adj_from_masks(n, masks)):
        return "adjacency matrix %s, reference model says graph %d" % (a.tolist(), want)
    if g.compress() != want:
        return "compress() = %d, the graph is %d" % (g.compress(), want)
    if not (impl.Graph.decompress(n, g.compress()) == g):
        return "decompress(compress(g)) != g"
    if sorted(g.get_edges()) != sorted((x, y) for x in range(n) for y in range(x + 1, n) if (masks[x] >> y) & 1):
        return "get_edges() = %r" % (g.get_edges(),)
    if int(g.edge_count()) != sum(M.pc(m_) for m_ in masks) // 2:
        return "edge_count() = %r" % (g.edge_count(),)
    return None


def judge_sequence(n, gid, seq):
    """Apply the operations to ONE Graph object, observing it (incl. compress()) after every step."""
    from .. import impl
    g = impl.Graph.decompress(n, gid)
    masks = M.graph_id_to_masks(n, gid)
    bad = observe_mismatch(n, g, masks)
    if bad:
        return "initially: " + bad
    frozen = []          # graphs a copying operation was called on: they must keep their value whatever happens to the copy
    for k, op in enumerate(seq):
        if op[0] in ("copy", "lcd"):
            frozen.append((g, list(masks), k))
        g = lib_apply(g, op)
        masks = model_apply(n, masks, op)
        done = " ".join("%s%s" % (o[0], ",".join(map(str, o[1:]))) for o in seq[:k + 1])
        bad = observe_mismatch(n, g, masks)
        if bad:
            return "after %s: %s" % (done, bad)
        for fg, fmasks, fk in frozen:
            if not np.array_equal(np.asarray(fg.adjacency_matrix), adj_from_masks(n, fmasks)):
                return "after %s: the graph that operation %d (%s) was called on has changed, although only the returned graph was modified" % (
                    done, fk + 1, seq[fk][0])
    return None


def _seq_work(payload):
    n, gids, depth = payload
    import itertools as it
    ops = graph_ops(n)
    fails = []
    cnt = 0
    steps = 0
    for gid in gids:
        for seq in it.product(ops, repeat=depth):
            cnt += 1
            steps += depth
            try:
                msg = judge_sequence(n, gid, seq)
            except Exception as ex:      # noqa: BLE001
                msg = "raised %s: %s" % (type(ex).__name__, ex)
            if msg:
                fails.append((gid, [list(o) for o in seq], msg))
                if len(fails) > 20:
                    return cnt, steps, fails
    return cnt, steps, fails


# ------------------------------------------------------------------------------ index families

def set_partitions_of_shape(n, shape):
    """All partitions of range(n) into blocks with the given multiset of sizes (as frozensets of frozensets)."""
    out = set()

    def rec(rest, sizes, acc):
        if not sizes:
            out.add(frozenset(acc))
            return
        first = min(rest)
        for size in set(sizes):
            others = [x for x in rest if x != first]
            for comb in itertools.combinations(others, size - 1):
                block = frozenset((first,) + comb)
                s2 = list(sizes)
                s2.remove(size)
                rec([x for x in rest if x not in block], s2, acc + [block])
    rec(list(range(n)), list(shape), [])
    return out


FAMILIES = [
    # name, universe, block sizes, ordered singles?, count
    ("12", 3, (1, 2), None), ("13", 4, (1, 3), None), ("14", 5, (1, 4), None), ("15", 6, (1, 5), None),
    ("22", 4, (2, 2), None), ("112", 4, (1, 1, 2), None), ("23", 5, (2, 3), None), ("122", 5, (1, 2, 2), None),
    ("123", 6, (1, 2, 3), None), ("33", 6, (3, 3), None), ("24", 6, (2, 4), None), ("222", 6, (2, 2, 2), None),
    ("1122", 6, (1, 1, 2, 2), None), ("1113", 6, (1, 1, 1, 3), None), ("1122s", 6, (1, 1, 2, 2), "ordered_singles"),
]


def judge_family(name, n, shape, mode):
    from .. import impl
    li = impl.linear_index
    to, frm = getattr(li, "to_" + name), getattr(li, "from_" + name)
    structures = set_partitions_of_shape(n, shape)
    count = len(structures) * (2 if mode == "ordered_singles" else 1)
    seen = {}
    msgs = []
    for i in range(count):
        try:
            r = to(i)
            blocks = [tuple(t.data) for grp in r.groups for t in grp]
            flat = sorted(x for b in blocks for x in b)
            if flat != list(range(n)) or sorted(len(b) for b in blocks) != sorted(shape):
                msgs.append("to_%s(%d) = %r is not a partition of 0..%d with block sizes %r" % (name, i, blocks, n - 1, shape))
                continue
            canon = frozenset(frozenset(b) for b in blocks)
            if mode == "ordered_singles":
                singles = [t.data[0] for t in r.groups[0]]
                canon = (canon, tuple(singles))
            if canon in seen:
                msgs.append("to_%s(%d) and to_%s(%d) give the same grouping" % (name, seen[canon], name, i))
            seen[canon] = i
            back = frm(r)
            if back != i:
                msgs.append("from_%s(to_%s(%d)) = %r" % (name, name, i, back))
        except Exception as ex:      # noqa: BLE001
            msgs.append("to/from_%s(%d) raised %s: %s" % (name, i, type(ex).__name__, ex))
    return count, msgs


def judge_pairs_index():
    from .. import impl
    li = impl.linear_index
    msgs = []
    cnt = 0
    for n in range(2, 9):
        k = 0
        for i in range(n - 1):
            for j in range(i + 1, n):
                cnt += 1
                if li.linear_index_from_n_choose_2(n, i, j) != k:
                    msgs.append("linear_index_from_n_choose_2(%d,%d,%d) = %d, expected %d" % (n, i, j, li.linear_index_from_n_choose_2(n, i, j), k))
                got = tuple(int(v) for v in li.linear_index_to_n_choose2_to(n, k))
                if got != (i, j):
                    msgs.append("linear_index_to_n_choose2_to(%d,%d) = %r, expected %r" % (n, k, got, (i, j)))
                k += 1
    return cnt, msgs


def judge_class_ids(n):
    from .. import impl
    cls = getattr(impl.lc_classes, "LCClass%d" % n)
    msgs = []
    for cid in range(M.N_CLASSES[n]):
        try:
            obj = cls(cid)
            if obj.id() != cid:
                msgs.append((cid, "LCClass%d(%d).id() = %r" % (n, cid, obj.id())))
            again = cls(obj.type, obj.data)
            if again.id() != cid:
                msgs.append((cid, "LCClass%d(type, grouping of id %d).id() = %r" % (n, cid, again.id())))
            if obj.num_qubits() != n:
                msgs.append((cid, "num_qubits() = %r" % obj.num_qubits()))
            flat = sorted(obj.data.flatten())
            if len(set(flat)) != len(flat) or any(q < 0 or q >= n for q in flat):
                msgs.append((cid, "grouping %r of id %d is not made of distinct qubits < %d" % (obj.data, cid, n)))
        except Exception as ex:      # noqa: BLE001
            msgs.append((cid, "raised %s: %s" % (type(ex).__name__, ex)))
    return msgs


def check(ctx):
    quick = ctx.tier == "quick"
    ctx.count("model_identities_checked", selftest.gate_rules_vs_matrices())
    B.warm()
    for n in (2, 3, 4, 5, 6):
        ctx.phase("n=%d: all graphs x all vertices" % n)
        ngraphs = 1 << (n * (n - 1) // 2)
        gids = list(range(ngraphs))
        if n == 6 and quick:
            payloads = [(n, c, False) for c in core.chunk_list(gids, 64)] + [(n, c, True) for c in core.chunk_list(gids[::8], 32)]
        else:
            payloads = [(n, c, True) for c in core.chunk_list(gids, 64)]
        for cnt, trans, fails in core.pmap(_work, payloads):
            ctx.count("graph_evaluations", cnt)
            ctx.count("transitions", trans)
            for gid, m in fails:
                ctx.violation({"kind": "graph", "n": n, "graph_id": gid}, "graph: n=%d graph %d: %s" % (n, gid, m))
        ctx.count("states", ngraphs)
        ctx.count("traces_validated_against_impl", ngraphs)
        # decompress(compress(.)) over ids beyond the range must not alias inside the range
        ctx.phase("n=%d: class ids" % n)
        for cid, m in judge_class_ids(n):
            ctx.violation({"kind": "classid", "n": n, "id": cid}, "classid: n=%d id %d: %s" % (n, cid, m))
        ctx.count("class_ids", M.N_CLASSES[n])
    for n, depth in ((3, 3), (4, 2 if quick else 3), (5, 1 if quick else 2)):
        ctx.phase("n=%d: all operation sequences of length %d on one Graph object, from every start graph" % (n, depth))
        gids = list(range(1 << (n * (n - 1) // 2)))
        if n == 5:
            gids = gids[::(8 if quick else 2)]
        for cnt, steps, fails in core.pmap(_seq_work, [(n, c, depth) for c in core.chunk_list(gids, 64)]):
            ctx.count("operation_sequences", cnt)
            ctx.count("transitions", steps)
            for gid, seq, msg in fails[:5]:
                ctx.violation({"kind": "sequence", "n": n, "graph_id": gid, "ops": seq}, "sequence: n=%d start graph %d: %s" % (n, gid, msg))
    ctx.phase("index families")
    for name, n, shape, mode in FAMILIES:
        count, msgs = judge_family(name, n, shape, mode)
        ctx.count("grouping_indices", count)
        for m in msgs:
            ctx.violation({"kind": "family", "name": name}, "family: %s" % m)
    cnt, msgs = judge_pairs_index()
    ctx.count("pair_indices", cnt)
    for m in msgs:
        ctx.violation({"kind": "pairs"}, "pairs: %s" % m)
    # declared counts in the class tables equal the number of structures
    from .. import impl
    for n in (2, 3, 4, 5, 6):
        cls = getattr(impl.lc_classes, "LCClass%d" % n)
        for key, com in cls.combinatorics.items():
            name = key[1:]
            fam = [f for f in FAMILIES if f[0] == name]
            if fam:
                want = len(set_partitions_of_shape(fam[0][1], fam[0][2])) * (2 if fam[0][3] else 1)
                if com["count"] != want:
                    ctx.violation({"kind": "family", "name": name}, "family: LCClass%d declares %d groupings of type %s, there are %d" % (n, com["count"], name, want))
    ctx.sample({"n": 5, "graph_id": 0b0110011011, "masks": M.graph_id_to_masks(5, 0b0110011011),
                "lc_at_2": M.masks_to_graph_id(5, lc_masks(5, M.graph_id_to_masks(5, 0b0110011011), 2))})
    ctx.exhaustive = True
    ctx.count("evaluations", ctx.counters.get("graph_evaluations", 0) + ctx.counters.get("grouping_indices", 0) + ctx.counters.get("operation_sequences", 0))
    ctx.count("distinct_nontrivial", ctx.counters.get("states", 0))
    ctx.rule = "all graphs on 2..6 labelled vertices (each id once) x all vertices; all class ids; all indices of all 15 grouping families"
    ctx.notes["states_meaning"] = "graphs; transitions = local complementations applied (graph, vertex)"
    if quick:
        ctx.notes["quick_bound"] = "library class id under local complementation: all graphs n<=5, every 8th graph for n=6 (all in thorough); the model component check covers all"


def replay_graph(body):
    msgs, _ = judge_graph(body["n"], body["graph_id"], True)
    return "; ".join(msgs) if msgs else None


def replay_family(body):
    for name, n, shape, mode in FAMILIES:
        if name == body["name"]:
            _, msgs = judge_family(name, n, shape, mode)
            return "; ".join(msgs[:3]) if msgs else None
    return None


def replay_classid(body):
    for cid, m in judge_class_ids(body["n"]):
        if cid == body["id"]:
            return m
    return None


def replay_sequence(body):
    return judge_sequence(body["n"], body["graph_id"], [tuple(o) for o in body["ops"]])


REPLAY = {"sequence": replay_sequence, "graph": replay_graph, "family": replay_family, "classid": replay_classid,
          "pairs": lambda b: ("; ".join(judge_pairs_index()[1][:3]) or None)}
