"""C01 -- the preparation circuit prepares exactly the requested signed stabilizer state."""
from .. import core, model as M, conform, selftest, binding as B, stategraph as SG

DELIVERED_ALPHABET = ("i", "id", "x", "y", "z", "h", "s", "sdg", "cx", "cz", "swap")


def judge(n, conn, gens, fmt, trace):
    from .. import impl
    stab = impl.make_stabilizer(gens, n, fmt, trace)
    if stab is None:
        return None, None
    snap = (stab.to_list(), stab.R.copy(), stab.S.copy(), stab.phases.copy())
    qc = impl.stabilizer_circuits.get_preparation_circuit(stab, conn)
    msgs = []
    if stab.to_list() != snap[0] or not ((stab.R == snap[1]).all() and (stab.S == snap[2]).all() and (stab.phases == snap[3]).all()):
        msgs.append("the call changed the Stabilizer object passed in: %r -> %r" % (snap[0], stab.to_list()))
    if qc.num_qubits != n or qc.num_clbits != 0:
        msgs.append("returned circuit has %d qubits / %d clbits" % (qc.num_qubits, qc.num_clbits))
    ops = impl.circuit_ops(qc, keep_measure=True)
    bad = M.check_alphabet(ops, n, allowed=DELIVERED_ALPHABET)
    if bad:
        return msgs + ["returned circuit: " + bad], None
    got = M.canon(M.run(ops, n), n)
    want = M.canon(gens, n)
    if got != want:
        msgs.append("circuit prepares %s, requested group is %s" % (
            [M.pauli_str(M.herm(*r), n) for r in got], [M.pauli_str(M.herm(*r), n) for r in want]))
    return msgs, None


def check(ctx):
    ctx.phase("model self-checks")
    ctx.count("model_identities_checked", selftest.gate_rules_vs_matrices())
    for n in (2, 3, 4):
        SG.selfcheck(B.sg(n), ctx)
    units = conform.standard_units(ctx.tier)
    conform.run_units(ctx, judge, units)
    ctx.count("transitions", ctx.counters.get("api_cases", 0))
    ctx.exhaustive = False
    ctx.notes["states_meaning"] = "distinct signed model states (per work chunk) on which get_preparation_circuit was run"
    ctx.notes["transitions_meaning"] = "model moves used to derive the cases (presentation moves, sign flips, format changes, configurations): one per API case"
    ctx.notes["traces_meaning"] = "returned instruction lists executed by the model from |0..0> and compared, as signed RREF, with the requested group"
    ctx.notes["complete_below_bound"] = ("n<=3 all groups x all signs (quick: presentations within one move; thorough: all generating sets); "
                                         "n=4 all groups (quick: sign weight<=1; thorough: all signs); n=5 thorough all groups; n=6 bounded families, see bounds")
    ctx.assume("oracle = equality of signed RREF in the verifier's tableau model; Qiskit is not used to judge the returned circuit")


def replay_case(body):
    n, conn, gens, fmt, trace = conform.case_from_json(body)
    try:
        msgs, _ = judge(n, conn, gens, fmt, trace)
    except Exception as ex:      # noqa: BLE001
        return "raised %s: %s" % (type(ex).__name__, ex)
    return "; ".join(msgs) if msgs else None


REPLAY = {"case": replay_case}
