"""C15 -- group predicates agree with the mathematical definitions."""
import numpy as np

from .. import core, model as M, binding as B, selftest, conform


def lib_stab(gens, n):
    from .. import impl
    R, S, ph = impl.gens_to_matrices(gens, n)
    return impl.Stabilizer((R, S, ph))


def weight_one_qubits(gens, n):
    """Qubits q on which the group contains an element acting on q alone."""
    out = set()
    for v in M.span_unsigned(gens, n):
        if v:
            supp = (v & ((1 << n) - 1)) | (v >> n)
            if supp & (supp - 1) == 0:
                out.add(supp.bit_length() - 1)
    return out


def judge_unary(gens, n):
    """expand() and is_qubit_entangled() for one presentation (int8 matrices; the same generators as bool and
    int64 matrices and as strings must give the same answers)."""
    from .. import impl
    msgs = judge_unary_on(lib_stab(gens, n), gens, n)
    if not msgs and (n <= 5 or sum(p[0] * 5 + p[1] for p in gens) % 8 == 0):      # n = 6: every eighth presentation
        R, S, ph = impl.gens_to_matrices(gens, n)
        prod = weight_one_qubits(gens, n)
        for label, st in (("bool matrices", impl.Stabilizer((R.astype(bool), S.astype(bool), ph.astype(bool)))),
                          ("int64 matrices", impl.Stabilizer((R.astype(np.int64), S.astype(np.int64)))),
                          ("strings", impl.Stabilizer(M.gens_str(gens, n)))):
            for q in range(n):
                got = st.is_qubit_entangled(q)
                if bool(got) != (q not in prod):
                    msgs.append("is_qubit_entangled(%d) = %r for %s given as %s; qubit %d %s a product factor"
                                % (q, got, M.gens_str(gens, n), label, q, "is" if q in prod else "is not"))
                    break
            X, Z = st.expand()
            cols = {sum((int(X[q, c]) & 1) << q for q in range(n)) | (sum((int(Z[q, c]) & 1) << q for q in range(n)) << n) for c in range(1 << n)}
            if cols != M.span_unsigned(gens, n):
                msgs.append("expand() of %s given as %s does not list the group" % (M.gens_str(gens, n), label))
    return msgs


def judge_unary_on(st, gens, n):
    msgs = []
    X, Z = st.expand()
    X, Z = np.asarray(X), np.asarray(Z)
    if X.shape != (n, 1 << n) or Z.shape != (n, 1 << n):
        msgs.append("expand() shapes %r %r" % (X.shape, Z.shape))
    else:
        cols = []
        for c in range(1 << n):
            x = sum((int(X[q, c]) & 1) << q for q in range(n))
            z = sum((int(Z[q, c]) & 1) << q for q in range(n))
            cols.append(x | (z << n))
        want = M.span_unsigned(gens, n)
        if len(set(cols)) != 1 << n or set(cols) != want:
            msgs.append("expand() lists %d distinct elements; %d of them are in the group of %d elements"
                        % (len(set(cols)), len(set(cols) & want), len(want)))
        if not np.isin(X, (0, 1)).all() or not np.isin(Z, (0, 1)).all():
            msgs.append("expand() has non-binary entries")
    prod = weight_one_qubits(gens, n)
    for q in range(n):
        got = st.is_qubit_entangled(q)
        if bool(got) != (q not in prod):
            msgs.append("is_qubit_entangled(%d) = %r for %s; qubit %d %s a product factor"
                        % (q, got, M.gens_str(gens, n), q, "is" if q in prod else "is not"))
    return msgs


def judge_pair(a, b, n):
    sa, sb = lib_stab(a, n), lib_stab(b, n)
    want = M.canon_unsigned(a, n) == M.canon_unsigned(b, n)
    got = sa.is_equivalent_mod_phase(sb)
    if bool(got) != want:
        return ["is_equivalent_mod_phase(%s, %s) = %r, the groups are %s up to signs"
                % (M.gens_str(a, n), M.gens_str(b, n), got, "equal" if want else "different")]
    return []


def _unary_work(payload):
    n, idxs, radius = payload
    g = B.sg(n)
    fails = []
    cnt = 0
    hist = core.History(to_case=lambda gs: {"kind": "unary", "n": n, "gens": M.gens_str(gs, n)})
    kept = None          # an expansion obtained earlier, and what it looked like then: later calls must not change it
    for i in idxs:
        for gens in M.presentations(g.gens(int(i), int(i) % (1 << n)), radius):
            cnt += 1
            try:
                msgs = judge_unary(gens, n)
                if kept is not None and not (np.array_equal(kept[0][0], kept[1][0]) and np.array_equal(kept[0][1], kept[1][1])):
                    fails.append(("the arrays returned by an earlier expand() call (for %s) changed when expand() was called for %s" % (kept[2], M.gens_str(gens, n)),
                                  {"kind": "kept_expand", "n": n, "first": kept[2], "second": M.gens_str(gens, n)}))
                    kept = None
                if kept is None or cnt % 7 == 0:
                    res = lib_stab(gens, n).expand()
                    kept = (res, (np.array(res[0], copy=True), np.array(res[1], copy=True)), M.gens_str(gens, n))
            except Exception as ex:     # noqa: BLE001
                msgs = ["raised %s: %s" % (type(ex).__name__, ex)]
            if msgs:
                cj = hist.attach({"kind": "unary", "n": n, "gens": M.gens_str(gens, n)})
                for m in msgs[:2]:
                    fails.append((m, cj))
            hist.add(gens)
    return cnt, fails


def _pair_work(payload):
    n, pairs, radius = payload      # pairs of state indices
    g = B.sg(n)
    fails = []
    cnt = 0
    mk = lambda ab: {"kind": "pair", "n": n, "a": M.gens_str(ab[0], n), "b": M.gens_str(ab[1], n), "both_orders": True}     # noqa: E731
    hist = core.History(to_case=mk)
    for i, j in pairs:
        a = g.gens(int(i), int(i + j) % (1 << n))
        for b in M.presentations(g.gens(int(j), int(j) % (1 << n)), radius):
            cnt += 1
            try:
                msgs = judge_pair(a, b, n) + (judge_pair(b, a, n) if i != j else [])
            except Exception as ex:     # noqa: BLE001
                msgs = ["raised %s: %s" % (type(ex).__name__, ex)]
            if msgs:
                cj = hist.attach(mk((a, b)))
                for m in msgs[:1]:
                    fails.append((m, cj))
            hist.add((a, b))
    return cnt, fails


def _nbr_work(payload):
    """state (explicit unsigned strings) against itself re-presented and all model neighbours."""
    n, strs_list = payload
    fails = []
    cnt = 0
    for strs in strs_list:
        a = M.parse_gens(strs)
        others = [(p, True) for p in M.presentations([M.herm(p[0], p[1], k & 1) for k, p in enumerate(a)], 1)]
        for gate in M.graph_gates(n):
            b = [M.conj(p, gate) for p in a]
            others.append((b, None))
        for b, _ in others:
            cnt += 1
            try:
                msgs = judge_pair(a, b, n)
            except Exception as ex:     # noqa: BLE001
                msgs = ["raised %s: %s" % (type(ex).__name__, ex)]
            for m in msgs[:1]:
                fails.append((m, {"kind": "pair", "n": n, "a": M.gens_str(a, n), "b": M.gens_str(b, n)}))
    return cnt, fails


def collect(ctx, label, worker, payloads, counter):
    ctx.phase(label)
    for cnt, fails in core.pmap(worker, payloads):
        ctx.count("evaluations", cnt)
        ctx.count(counter, cnt)
        for m, case in sorted(fails, key=lambda t: core.canon_json(t[1])):
            ctx.violation(case, "%s: %s" % (case["kind"], m))


def check(ctx):
    quick = ctx.tier == "quick"
    ctx.count("model_identities_checked", selftest.gate_rules_vs_matrices())
    B.warm()
    # unary predicates
    for n in (2, 3, 4, 5, 6):
        g = B.sg(n)
        if n <= 3:
            idxs, radius, label = np.arange(g.N), "all", "all groups x all generating sets"
        elif n == 4:
            idxs, radius, label = np.arange(g.N), 1, "all groups x presentations within one move"
        elif n == 5:
            idxs, radius, label = (np.arange(0, g.N, 16), 1, "every 16th group x presentations within one move") if quick else \
                (np.arange(g.N), 1, "ALL groups x presentations within one move")
        else:
            idxs, radius, label = (np.arange(0, g.N, 2048), 1, "every 2048th group x presentations within one move") if quick else \
                (np.arange(g.N), 0, "ALL 4922775 groups, canonical generators")
        ctx.count("states", len(idxs))
        collect(ctx, "expand / is_qubit_entangled: n=%d %s" % (n, label), _unary_work,
                [(n, c, radius) for c in core.chunk_list(idxs, 64 if n < 6 else 256)], "unary_cases")
        if n == 6 and not quick:
            collect(ctx, "expand / is_qubit_entangled: n=6 every 64th group x presentations within one move", _unary_work,
                    [(n, c, 1) for c in core.chunk_list(np.arange(0, g.N, 64), 128)], "unary_cases")
    # pairs
    for n in (2, 3):
        g = B.sg(n)
        pairs = [(i, j) for i in range(g.N) for j in range(g.N)]
        rad = "all" if (n == 2 or not quick) else 1
        collect(ctx, "is_equivalent_mod_phase: n=%d all ordered pairs of groups, %s on one side" % (n, "all generating sets" if rad == "all" else "presentations within one move"),
                _pair_work, [(n, c, rad) for c in core.chunk_list(pairs, 64)], "pair_cases")
    g4 = B.sg(4)
    if quick:
        landmarks = list(range(0, g4.N, 72))
        pairs = [(i, j) for i in range(g4.N) for j in landmarks]
        collect(ctx, "is_equivalent_mod_phase: n=4 every group vs %d landmarks" % len(landmarks), _pair_work,
                [(4, c, 0) for c in core.chunk_list(pairs, 64)], "pair_cases")
        collect(ctx, "is_equivalent_mod_phase: n=4 every group vs itself re-presented", _pair_work,
                [(4, c, 1) for c in core.chunk_list([(i, i) for i in range(g4.N)], 64)], "pair_cases")
    else:
        pairs = [(i, j) for i in range(g4.N) for j in range(i, g4.N)]
        collect(ctx, "is_equivalent_mod_phase: n=4 ALL pairs of groups (both orders)", _pair_work,
                [(4, c, 0) for c in core.chunk_list(pairs, 256)], "pair_cases")
        collect(ctx, "is_equivalent_mod_phase: n=4 every group vs itself re-presented", _pair_work,
                [(4, c, 1) for c in core.chunk_list([(i, i) for i in range(g4.N)], 64)], "pair_cases")
    for n in (4, 5, 6):
        strs = []
        for gid in conform.rep_gids(n)[::(4 if (quick and n == 6) else 1)]:
            gens = B.graph_states_gens(n, gid)
            strs.append([M.pauli_str(p, n, False) for p in gens])
            choice = [(gid + q) % 6 for q in range(n)]
            strs.append([M.pauli_str(p, n, False) for p in M.run(M.local_layer_gates(choice), n, gens)])
        ctx.count("states", len(strs))
        ctx.count("transitions", len(strs) * len(M.graph_gates(n)))
        collect(ctx, "is_equivalent_mod_phase: n=%d table graph states (+ rotated) vs re-presentations and all gate neighbours" % n, _nbr_work,
                [(n, c) for c in core.chunk_list(strs, 64)], "pair_cases")
    ctx.sample({"pair": [["+XZ", "+ZX"], ["-YY", "+ZX"]], "equivalent_mod_phase": True})
    ctx.sample({"gens": ["+ZII", "+IXX", "+IZZ"], "entangled": [False, True, True]})
    ctx.count("transitions", ctx.counters.get("pair_cases", 0))
    ctx.count("traces_validated_against_impl", ctx.counters["evaluations"])
    ctx.count("distinct_nontrivial", ctx.counters["evaluations"])
    ctx.exhaustive = False
    ctx.rule = "groups / pairs of groups / presentations enumerated as listed; every case is a distinct (presentation[, presentation]) tuple"


def replay_unary(body):
    n = body["n"]
    msgs = judge_unary(M.parse_gens(body["gens"]), n)
    return "; ".join(msgs) if msgs else None


def replay_pair(body):
    n = body["n"]
    a, b = M.parse_gens(body["a"]), M.parse_gens(body["b"])
    msgs = judge_pair(a, b, n) + (judge_pair(b, a, n) if body.get("both_orders") else [])
    return "; ".join(msgs) if msgs else None


def replay_kept(body):
    n = body["n"]
    a = lib_stab(M.parse_gens(body["first"]), n).expand()
    snap = (np.array(a[0], copy=True), np.array(a[1], copy=True))
    judge_unary(M.parse_gens(body["second"]), n)
    lib_stab(M.parse_gens(body["second"]), n).expand()
    if np.array_equal(a[0], snap[0]) and np.array_equal(a[1], snap[1]):
        return None
    return "the arrays returned by expand() for %s changed when expand() was called for %s" % (body["first"], body["second"])


REPLAY = {"unary": replay_unary, "pair": replay_pair, "kept_expand": replay_kept}
