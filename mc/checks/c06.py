"""C06 -- the LC class id is a complete invariant of local-Clifford equivalence.

Oracle: the connected components of the explicitly enumerated state graph U_n
under the single-qubit gates H_q, S_q (that IS local-Clifford equivalence of
stabilizer states, by definition).  The library's classifier is run on the
enumerated states; the id must be constant on every component and injective
across components."""
import numpy as np

from .. import core, model as M, stategraph as SG, binding as B, selftest

FLAG_SIGNS = 1      # also classify with sigma = 1..1 and sigma = index mod 2^n
FLAG_PRES1 = 2      # all presentations within one move
FLAG_PRESALL = 4    # all ordered generating sets
FLAG_STAR = 8       # dense presentations: all generators multiplied by one of them; cumulative products


def classify_gens(gens, n):
    from .. import impl
    R, S, ph = impl.gens_to_matrices(gens, n)
    return impl.class_id(impl.Stabilizer((R, S, ph)))


def _work(payload):
    """Classify the states with the given indices.  Returns (ids, counters, failures)."""
    from .. import impl
    n, idxs, flags = payload
    g = B.sg(n)
    ids = np.full(len(idxs), -1, dtype=np.int64)
    fails = []
    calls = 0
    variants = 0
    for k, i in enumerate(idxs):
        rows = g.states[i]
        try:
            id0 = impl.class_id(B.lib_stabilizer_of_rows(rows, n))
        except Exception as ex:       # noqa: BLE001
            fails.append((int(i), None, "classifier raised %s: %s" % (type(ex).__name__, ex)))
            continue
        calls += 1
        ids[k] = id0
        if flags:
            alts = []
            if flags & FLAG_SIGNS:
                alts.append(g.gens(i, (1 << n) - 1))
                alts.append(g.gens(i, int(i) % (1 << n)))
            if flags & FLAG_PRESALL:
                alts += M.presentations(g.gens(i, int(i) % (1 << n)), "all")
            elif flags & FLAG_PRES1:
                alts += M.presentations(g.gens(i, int(i) % (1 << n)), 1)[1:]
            if flags & FLAG_STAR:
                alts += M.presentations(g.gens(i, (int(i) * 5 + 3) % (1 << n)), "star")
            for gens in alts:
                variants += 1
                try:
                    ida = classify_gens(gens, n)
                except Exception as ex:       # noqa: BLE001
                    ida = "raised %s" % type(ex).__name__
                calls += 1
                if ida != id0:
                    fails.append((int(i), M.gens_str(gens, n),
                                  "id %r for these generators, id %d for the canonical generators of the same group" % (ida, id0)))
    return ids, {"classifier_calls": calls, "presentation_or_sign_variants": variants}, fails


def _graph_form_work(payload):
    """Classify graphs given in graph form (Graph object and X_v Z_N(v) strings); returns (gid, id or message)."""
    from .. import impl
    n, gids = payload
    out = []
    for gid in gids:
        try:
            a = impl.class_id(impl.Stabilizer(impl.Graph.decompress(n, gid)))
            b = impl.class_id(impl.Stabilizer(M.gens_str(B.graph_states_gens(n, gid), n)))
            out.append((gid, a if a == b else "Graph object gives id %r, the same generators as strings id %r" % (a, b)))
        except Exception as ex:      # noqa: BLE001
            out.append((gid, "classifier raised %s: %s" % (type(ex).__name__, ex)))
    return out


def judge_graph_form(ctx, n, id_of_comp):
    """Every graph on n vertices, given in graph form, must get the id of its model component."""
    g = B.sg(n)
    gids = list(range(1 << (n * (n - 1) // 2)))
    for part in core.pmap(_graph_form_work, [(n, c) for c in core.chunk_list(gids, 32)]):
        for gid, got in part:
            ctx.count("graph_form_classified")
            comp = g.component_of_gens(B.graph_states_gens(n, gid))
            want = id_of_comp.get(comp)
            if got != want:
                ctx.violation({"kind": "graphform", "n": n, "graph_id": gid, "component_id": want},
                              "graphform: n=%d graph %d given in graph form is classified %r; its local-Clifford class has id %r" % (n, gid, got, want))


def explore(ctx, n, idxs, flags, label):
    g = B.sg(n)
    idxs = np.asarray(idxs, dtype=np.int64)
    parts = core.pmap(_work, [(n, c, flags) for c in core.chunk_list(idxs, 64)])
    ids = np.concatenate([p[0] for p in parts]) if parts else np.zeros(0, dtype=np.int64)
    for p in parts:
        ctx.merge(p[1])
        for i, gens, msg in p[2]:
            ctx.violation({"kind": "variant", "n": n, "state": M.gens_str(g.gens(i), n), "variant": gens},
                          "variant: n=%d state %s: %s" % (n, M.gens_str(g.gens(i), n), msg))
    ctx.count("states", len(idxs))
    ctx.count("traces_validated_against_impl", len(idxs))
    ctx.bounds.setdefault("explored", {})["n=%d %s" % (n, label)] = int(len(idxs))
    return idxs, ids


def judge_partition(ctx, n, idxs, ids, complete):
    """ids constant on components, injective across components, exactly 0..K-1."""
    g = B.sg(n)
    comp = g.comp[idxs].astype(np.int64)
    ok = ids >= 0
    comp, idv, idx = comp[ok], ids[ok], idxs[ok]
    K = g.K
    id_of_comp = {}
    order = np.argsort(idx, kind="stable")
    # first explored member of every component defines the id
    first_pos = {}
    for pos in order:
        c = int(comp[pos])
        if c not in first_pos:
            first_pos[c] = pos
            id_of_comp[c] = int(idv[pos])
    expect = np.array([id_of_comp[int(c)] for c in comp], dtype=np.int64)
    bad = np.nonzero(expect != idv)[0]
    for pos in bad[:5]:
        a, b = int(idx[first_pos[int(comp[pos])]]), int(idx[pos])
        ctx.violation({"kind": "pair", "n": n, "a": M.gens_str(g.gens(a), n), "b": M.gens_str(g.gens(b), n), "equivalent": True},
                      "pair: n=%d local-Clifford equivalent states %s and %s get ids %d and %d"
                      % (n, M.gens_str(g.gens(a), n), M.gens_str(g.gens(b), n), expect[pos], idv[pos]))
    if len(bad) > 5:
        ctx.count("further_id_mismatches_not_listed", len(bad) - 5)
    by_id = {}
    for c, i in sorted(id_of_comp.items()):
        if i in by_id:
            a, b = int(idx[first_pos[by_id[i]]]), int(idx[first_pos[c]])
            ctx.violation({"kind": "pair", "n": n, "a": M.gens_str(g.gens(a), n), "b": M.gens_str(g.gens(b), n), "equivalent": False},
                          "pair: n=%d inequivalent states %s and %s share id %d"
                          % (n, M.gens_str(g.gens(a), n), M.gens_str(g.gens(b), n), i))
        by_id.setdefault(i, c)
    if complete or len(id_of_comp) == K:
        if sorted(by_id) != list(range(K)) and len(by_id) == K:
            ctx.violation({"kind": "idrange", "n": n}, "idrange: n=%d ids in use are %r.., expected 0..%d" % (n, sorted(by_id)[:8], K - 1))
    if K != M.N_CLASSES[n]:
        raise core.HarnessError("n=%d: model has %d components, expected %d" % (n, K, M.N_CLASSES[n]))
    return id_of_comp


def judge_class_objects(ctx, n, id_of_comp):
    """LCClassN(id).id() == id; count(); representative graph lies in the component of that id."""
    from .. import impl
    g = B.sg(n)
    cls = getattr(impl.lc_classes, "LCClass%d" % n)
    K = g.K
    if cls.count() != K:
        ctx.violation({"kind": "count", "n": n}, "count: LCClass%d.count() = %d, expected %d" % (n, cls.count(), K))
    comp_of_id = {i: c for c, i in id_of_comp.items()}
    for cid in range(K):
        msg = judge_one_class(n, cid, comp_of_id.get(cid))
        ctx.count("class_objects")
        if msg:
            ctx.violation({"kind": "classobj", "n": n, "id": cid}, "classobj: n=%d id %d: %s" % (n, cid, msg))


def judge_one_class(n, cid, comp_expected=None):
    from .. import impl
    g = B.sg(n)
    cls = getattr(impl.lc_classes, "LCClass%d" % n)
    try:
        obj = cls(cid)
        back = obj.id()
        graph = obj.get_graph()
    except Exception as ex:       # noqa: BLE001
        return "rebuilding the class raised %s: %s" % (type(ex).__name__, ex)
    if back != cid:
        return "LCClass%d(%d).id() = %r" % (n, cid, back)
    adj = np.asarray(graph.adjacency_matrix)
    if adj.shape != (n, n) or not np.array_equal(adj, adj.T) or np.any(np.diag(adj)) or not np.isin(adj, (0, 1)).all():
        return "representative graph is not a simple graph on %d vertices" % n
    comp = g.component_of_gens(M.graph_state_gens(n, B.lib_graph_masks(graph)))
    if comp_expected is None:
        # derive: component whose first state is classified cid
        ids = B.component_ids(n)
        comp_expected = ids.index(cid) if cid in ids else None
    if comp != comp_expected:
        return "representative graph %d is a graph state of another class (component %s, expected %s)" % (
            M.masks_to_graph_id(n, B.lib_graph_masks(graph)), comp, comp_expected)
    # classifying the representative gives the id back
    lib = impl.class_id(impl.Stabilizer(graph))
    if lib != cid:
        return "determine_lc_class(representative graph) = %d" % lib
    # every sequence of up to three queries on ONE class object answers like a fresh object does
    import itertools
    ops = {"id": lambda o: o.id(), "graph": lambda o: np.asarray(o.get_graph().adjacency_matrix).tolist(),
           "str": lambda o: str(o), "eq": lambda o: bool(o == cls(cid))}
    ref = {k: f(cls(cid)) for k, f in ops.items()}
    for seq in itertools.product(sorted(ops), repeat=3):
        o = cls(cid)
        for k, name in enumerate(seq):
            got = ops[name](o)
            if got != ref[name]:
                return "on one LCClass%d(%d) object the queries %s answer %r for the last one; a fresh object answers %r" % (
                    n, cid, " ".join(seq[:k + 1]), got, ref[name])
    return None


def check(ctx):
    quick = ctx.tier == "quick"
    ctx.phase("model self-checks")
    ctx.count("model_identities_checked", selftest.gate_rules_vs_matrices())
    for n in (2, 3, 4, 5, 6):
        g = B.sg(n)
        SG.selfcheck(g, ctx, stride=(4 if (quick and n >= 5) else 1))
        ctx.count("transitions", int(g.N) * 2 * n if (not quick or n < 6) else 0)
    if not quick:
        ctx.phase("full rebuild of the n=6 state graph and scipy components")
        SG.full_recheck(6, ctx)
        SG.full_recheck(5, ctx)
    for n in (2, 3, 4, 5, 6):
        g = B.sg(n)
        ctx.phase("n=%d classification" % n)
        if n <= 3:
            idxs, ids = explore(ctx, n, np.arange(g.N), FLAG_SIGNS | FLAG_PRESALL, "all groups, all generating sets, 2 extra sign vectors")
            complete = True
        elif n == 4:
            idxs, ids = explore(ctx, n, np.arange(g.N), FLAG_SIGNS | FLAG_PRES1 | FLAG_STAR, "all groups, presentations within one move + dense presentations, 2 extra sign vectors")
            complete = True
        elif n == 5:
            if quick:
                idxs, ids = explore(ctx, n, np.arange(g.N), FLAG_STAR, "all groups, canonical generators + dense presentations")
                explore(ctx, n, np.arange(0, g.N, 8), FLAG_SIGNS | FLAG_PRES1, "every 8th group: presentations within one move + signs")
            else:
                idxs, ids = explore(ctx, n, np.arange(g.N), FLAG_SIGNS | FLAG_PRES1 | FLAG_STAR, "all groups, presentations within one move + dense presentations, 2 extra sign vectors")
            complete = True
        else:
            if quick:
                sel = set()
                # all 32768 graph states
                for gid in range(1 << 15):
                    sel.add(g.index_of(M.canon_unsigned(M.graph_state_gens(6, M.graph_id_to_masks(6, gid)), 6)))
                ctx.count("graph_states_located", 1 << 15)
                # first 256 members of every component in BFS order
                order = np.argsort(g.comp, kind="stable")
                starts = np.searchsorted(g.comp[order], np.arange(g.K))
                for c in range(g.K):
                    sel.update(int(v) for v in order[starts[c]:starts[c] + 256] if g.comp[v] == c)
                # a complete residue class of the BFS order
                sel.update(range(0, g.N, 16))
                idxs, ids = explore(ctx, n, np.array(sorted(sel)), 0,
                                    "all 32768 graph states + first 256 members of each of the 760 components + every 16th state (residue class R16)")
                explore(ctx, n, g.first_of_component(), FLAG_SIGNS | FLAG_PRES1 | FLAG_STAR, "first member of every component: presentations + signs")
                explore(ctx, n, np.arange(0, g.N, 512), FLAG_STAR, "every 512th group: dense presentations")
                complete = False
                ctx.count("transitions", len(idxs) * 12)
            else:
                idxs, ids = explore(ctx, n, np.arange(g.N), 0, "ALL 4922775 groups, canonical generators")
                explore(ctx, n, np.arange(0, g.N, 64), FLAG_SIGNS | FLAG_PRES1 | FLAG_STAR, "every 64th group: presentations within one move + dense presentations + signs")
                complete = True
        id_of_comp = judge_partition(ctx, n, idxs, ids, complete)
        judge_class_objects(ctx, n, id_of_comp)
        judge_graph_form(ctx, n, id_of_comp)
        ctx.sample({"n": n, "state": M.gens_str(g.gens(int(idxs[len(idxs) // 2])), n),
                    "component": int(g.comp[int(idxs[len(idxs) // 2])]), "library_id": int(ids[len(idxs) // 2])})
    ctx.exhaustive = not quick
    ctx.notes["states_meaning"] = "stabilizer groups on which the library classifier was run (canonical generators); variants counted separately"
    ctx.notes["transitions_meaning"] = "local-gate (H_q,S_q) edges of the state graph that define the component oracle for the explored states"
    ctx.assume("local-Clifford equivalence of stabilizer states = connectivity in the state graph under H_q and S_q (definition; Paulis act trivially on unsigned groups)")


# ------------------------------------------------------------------------------- replay

def replay_pair(body):
    n = body["n"]
    g = B.sg(n)
    a, b = M.parse_gens(body["a"]), M.parse_gens(body["b"])
    same = g.component_of_gens(a) == g.component_of_gens(b)
    ia, ib = classify_gens(a, n), classify_gens(b, n)
    if same and ia != ib:
        return "equivalent states get ids %d and %d" % (ia, ib)
    if (not same) and ia == ib:
        return "inequivalent states share id %d" % ia
    return None


def replay_variant(body):
    n = body["n"]
    try:
        base = classify_gens(M.parse_gens(body["state"]), n)
    except Exception as ex:       # noqa: BLE001
        return "classifier raised %s on a valid stabilizer" % type(ex).__name__
    if body.get("variant") is None:
        return None
    try:
        alt = classify_gens(M.parse_gens(body["variant"]), n)
    except Exception as ex:       # noqa: BLE001
        return "classifier raised %s" % type(ex).__name__
    return None if alt == base else "ids %r vs %r for two generating sets of one group" % (alt, base)


def replay_classobj(body):
    return judge_one_class(body["n"], body["id"])


def replay_count(body):
    from .. import impl
    n = body["n"]
    cls = getattr(impl.lc_classes, "LCClass%d" % n)
    return None if cls.count() == M.N_CLASSES[n] else "count() = %d" % cls.count()


def replay_idrange(body):
    n = body["n"]
    ids = B.component_ids(n)
    return None if sorted(ids) == list(range(M.N_CLASSES[n])) else "ids of component representatives: %r" % sorted(ids)[:10]


def replay_graphform(body):
    n, gid = body["n"], body["graph_id"]
    got = _graph_form_work((n, [gid]))[0][1]
    ids = B.component_ids(n)
    want = ids[B.sg(n).component_of_gens(B.graph_states_gens(n, gid))]
    return None if got == want else "graph %d in graph form is classified %r, its class has id %r" % (gid, got, want)


REPLAY = {"graphform": replay_graphform, "pair": replay_pair, "variant": replay_variant, "classobj": replay_classobj, "count": replay_count,
          "idrange": replay_idrange}
