"""C03 -- the readout circuit diagonalises the whole stabilizer group, does not depend on
signs, and its inverse prepares the state up to signs."""
from .. import core, model as M, conform, selftest, binding as B, stategraph as SG
from .c01 import DELIVERED_ALPHABET


def judge(n, conn, gens, fmt, trace):
    from .. import impl
    stab = impl.make_stabilizer(gens, n, fmt, trace)
    if stab is None:
        return None, None
    snap = (stab.to_list(), stab.R.copy(), stab.S.copy(), stab.phases.copy())
    qc = impl.stabilizer_circuits.get_readout_circuit(stab, conn)
    msgs = []
    if stab.to_list() != snap[0] or not ((stab.R == snap[1]).all() and (stab.S == snap[2]).all() and (stab.phases == snap[3]).all()):
        msgs.append("the call changed the Stabilizer object passed in: %r -> %r" % (snap[0], stab.to_list()))
    if qc.num_qubits != n or qc.num_clbits != 0:
        msgs.append("returned circuit has %d qubits / %d clbits" % (qc.num_qubits, qc.num_clbits))
    ops = impl.circuit_ops(qc, keep_measure=True)
    bad = M.check_alphabet(ops, n, allowed=DELIVERED_ALPHABET)
    if bad:
        return msgs + ["returned circuit: " + bad], None
    # every one of the 2^n group elements (expanded in the model) becomes +/- a Z-string
    elems = M.expand(gens)
    images = set()
    for p in elems:
        q = M.conj_seq(p, ops)
        if q[0] != 0:
            msgs.append("group element %s is mapped to %s, which is not diagonal" % (M.pauli_str(p, n), M.pauli_str(q, n)))
            break
        images.add(q[1])
    if not msgs and len(images) != 1 << n:
        msgs.append("the 2^n group elements are mapped to only %d distinct Z-strings" % len(images))
    # the inverse prepares the state up to signs
    back = M.canon_unsigned(M.run(M.inverse_gates(ops), n), n)
    if back != M.canon_unsigned(gens, n):
        msgs.append("inverse of the readout circuit prepares another group (up to signs)")
    # independence of the signs: same request with all signs '+'
    if any(M.sign_of(p) for p in gens):
        plus = [M.herm(p[0], p[1], 0) for p in gens]
        stab0 = impl.make_stabilizer(plus, n, fmt if fmt != "circuit" else "matrices", None)
        if stab0 is not None:
            ops0 = impl.circuit_ops(impl.stabilizer_circuits.get_readout_circuit(stab0, conn), keep_measure=True)
            if ops0 != ops:
                msgs.append("readout circuit differs from the one for the same generators with '+' signs")
    return msgs, None


def check(ctx):
    ctx.phase("model self-checks")
    ctx.count("model_identities_checked", selftest.gate_rules_vs_matrices())
    for n in (2, 3, 4):
        SG.selfcheck(B.sg(n), ctx)
    units = conform.standard_units(ctx.tier, sign_mode="light")
    conform.run_units(ctx, judge, units)
    ctx.count("transitions", ctx.counters.get("api_cases", 0))
    ctx.exhaustive = False
    ctx.notes["states_meaning"] = "distinct signed model states on which get_readout_circuit was run"
    ctx.notes["traces_meaning"] = "returned instruction lists through which all 2^n group elements were conjugated in the model"
    ctx.assume("group elements are expanded by the model, not by Stabilizer.expand()")


def replay_case(body):
    n, conn, gens, fmt, trace = conform.case_from_json(body)
    try:
        msgs, _ = judge(n, conn, gens, fmt, trace)
    except Exception as ex:      # noqa: BLE001
        return "raised %s: %s" % (type(ex).__name__, ex)
    return "; ".join(msgs) if msgs else None


REPLAY = {"case": replay_case}
