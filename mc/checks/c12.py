"""C12 -- stabilizer measurement reports the true, correctly signed expectation values."""
import itertools

from .. import core, model as M, binding as B, selftest, tomo, programs, conform
from . import c10
from .c11 import _work, run_items


def check(ctx):
    quick = ctx.tier == "quick"
    ctx.count("model_identities_checked", selftest.gate_rules_vs_matrices())
    B.warm((2, 3, 4, 5))
    # (A),(B): every measured group, point masses on every outcome
    for n in (2, 3, 4):
        g = B.sg(n)
        confs = M.configs_for(n)
        items = []
        step = 1 if (n < 4 or not quick) else 6
        for i in range(0, g.N, step):
            sigmas = range(1 << n) if n <= 3 else [i % 16]
            for s in sigmas:
                pres = M.presentations(g.gens(i, s), 1 if (n <= 3 and (s == i % (1 << n))) else 0)
                for k, gens in enumerate(pres):
                    grp = M.gens_str(gens, n)
                    conn = confs[(i + s + k) % len(confs)]
                    outs = range(1 << n) if (k == 0 and (n < 4 or not quick)) else [((i + k) * 5 + 1) % (1 << n), 0]
                    for b in outs:
                        items.append(("stabilizer", n, conn, n, None, [], ("point", b), False, grp))
        ctx.count("states", len(items))
        run_items(ctx, "n=%d: measured groups (%s) x signs x presentations x point-mass outcomes" % (n, "all" if step == 1 else "every 6th"), items)
    for n in (5, 6):
        items = []
        for conn in M.configs_for(n):
            for k, gid in enumerate(conform.table_graphs(n, conn)):
                gens = M.run(M.local_layer_gates([(k + 2 * q) % 6 for q in range(n)]), n, B.graph_states_gens(n, gid))
                gens = [M.herm(p[0], p[1], (k >> (j % 3)) & 1) for j, p in enumerate(gens)]
                outs = [(k * 37 + 5) % (1 << n), (1 << n) - 1, 1 << (k % n)] if quick else list(range(k % 3, 1 << n, 3))
                for b in outs:
                    items.append(("stabilizer", n, conn, n, None, [], ("point", b), False, M.gens_str(gens, n)))
        ctx.count("states", len(items))
        run_items(ctx, "n=%d: every (configuration, class): rotated table graph state as measured group x point-mass outcomes" % n, items)
    # (C) end to end: every measured group x every signed state
    g2 = B.sg(2)
    items = []
    for i in range(g2.N):
        for s in range(4):
            grp = M.gens_str(g2.gens(i, s), 2)
            for j in range(g2.N):
                for t in range(4):
                    items.append(("stabilizer", 2, "all", 2, None, programs.decorated_trace(g2, j, t), ("state",), True, grp))
    ctx.count("states", len(items))
    run_items(ctx, "n=2: all 60 signed measured groups x all 60 signed states, exact statistics", items)
    g3 = B.sg(3)
    items = []
    for i in range(g3.N):
        grp = M.gens_str(g3.gens(i, i % 8), 3)
        for j in range((i * 7) % (16 if quick else 2), g3.N, (16 if quick else 2)):
            t = (i + j) % 8
            items.append(("stabilizer", 3, ("all", "linear")[(i + j) % 2], 3, None, programs.decorated_trace(g3, j, t), ("state",), j % 4 == 0, grp))
    ctx.count("states", len(items))
    run_items(ctx, "n=3: all 135 measured groups x %s signed states, exact statistics" % ("a rotating 1/16 of the" if quick else "half of the"), items)
    g4 = B.sg(4)
    items = []
    for i in range(0, g4.N, (36 if quick else 3)):
        grp = M.gens_str(g4.gens(i, i % 16), 4)
        for j in range(i % 97, g4.N, 97):
            items.append(("stabilizer", 4, M.configs_for(4)[(i + j) % 4], 4, None, programs.decorated_trace(g4, j, (i + j) % 16), ("state",), False, grp))
    ctx.count("states", len(items))
    run_items(ctx, "n=4: measured groups x signed states, exact statistics", items)
    # non-stabilizer probes
    items = []
    for pr in c10.PROBES:
        for i in range(0, g2.N, 2):
            items.append(("stabilizer", 2, "all", 2, None, pr, ("dense",), False, M.gens_str(g2.gens(i, i % 4), 2)))
        for i in range(0, g3.N, 9):
            items.append(("stabilizer", 3, ("all", "linear")[i % 2], 3, None, list(pr) + [("cx", 1, 2), ("t", 2), ("h", 2)], ("dense",), False,
                          M.gens_str(g3.gens(i, i % 8), 3)))
    run_items(ctx, "n=2,3: non-stabilizer probe states through the dense simulator", items)
    ctx.sample({"group": ["+XX", "-ZZ"], "state": "h0 cx0,1 (Bell)", "expected": {"II": 1, "XX": 1, "ZZ": 1, "YY": -1}})
    ctx.count("transitions", ctx.counters["evaluations"])
    ctx.count("traces_validated_against_impl", ctx.counters["evaluations"])
    ctx.count("distinct_nontrivial", ctx.counters["evaluations"])
    ctx.exhaustive = False
    ctx.rule = "one fitter evaluation per (measured group presentation, configuration, preparation, distribution); all distinct"
    ctx.assume("same linearity reduction as C10: operator identity per group element + estimator on point masses")


REPLAY = {"fit": c10.replay}
