"""C02 -- every delivered circuit uses two-qubit gates only on coupled qubit pairs.

The edge table is transcribed in mc.model.edge_table from the property statement /
README, not taken from the library; get_connectivity_graph is itself checked
against it."""
import itertools
import os

from .. import core, model as M, conform, tables, selftest, binding as B


def off_edge_msgs(what, ops, n, edges):
    out = []
    for g in ops:
        if len(g) - 1 >= 2:
            if g[0] not in ("cx", "cz", "swap") or len(g) != 3:
                out.append("%s: multi-qubit instruction %r is not a two-qubit cx/cz/swap" % (what, g))
            elif frozenset(g[1:]) not in edges:
                out.append("%s: %s on qubits (%d,%d) which are not coupled" % (what, g[0], g[1], g[2]))
    return out[:3]


def judge(n, conn, gens, fmt, trace):
    """preparation, readout and compressed circuits for one signed presentation."""
    from .. import impl
    stab = impl.make_stabilizer(gens, n, fmt, trace)
    if stab is None:
        return None, None
    edges = M.edge_table(n, conn)
    msgs = []
    prep = impl.circuit_ops(impl.stabilizer_circuits.get_preparation_circuit(stab, conn))
    msgs += off_edge_msgs("preparation", prep, n, edges)
    ro = impl.circuit_ops(impl.stabilizer_circuits.get_readout_circuit(stab, conn))
    msgs += off_edge_msgs("readout", ro, n, edges)
    src = trace if trace is not None else prep
    if M.check_alphabet(src, n) is None:
        comp = impl.circuit_ops(impl.stabilizer_circuits.compress_preparation_circuit(impl.ops_to_circuit(src, n), conn))
        msgs += off_edge_msgs("compress", comp, n, edges)
    return msgs, None


# ------------------------------------------------------------------------------ tables and coupling graphs

def judge_graph(n, conn):
    from .. import impl
    g = impl.connectivity_support.get_connectivity_graph(n, conn)
    got = {frozenset((i, j)) for i in range(n) for j in range(n) if i != j and int(g.adjacency_matrix[i, j]) & 1}
    want = M.edge_table(n, conn)
    if g.num_vertices != n or got != want:
        return "get_connectivity_graph(%d, %r) has edges %s, documented %s" % (
            n, conn, sorted(tuple(sorted(e)) for e in got), sorted(tuple(sorted(e)) for e in want))
    if any(int(g.adjacency_matrix[i, i]) for i in range(n)):
        return "coupling graph has a self loop"
    if sorted(g.get_edges()) != sorted(tuple(sorted(e)) for e in want):
        return "get_edges() of the coupling graph is %r" % (g.get_edges(),)
    return None


def judge_table_file(kind, n, conn):
    """Every circuit text of one shipped table, through the strict parser."""
    path = os.path.join(tables.DATA_DIR, "%s%d-%s.txt" % (kind, n, conn))
    edges = M.edge_table(n, conn)
    out = []
    if kind == "stabilizer":
        circuits = [e["gates"] for e in tables.read_stabilizer_table(path, n)]
    else:
        circuits = [g for _, g in tables.read_mub_table(path, n)[1]]
    for idx, gates in enumerate(circuits):
        for m in off_edge_msgs("line %d" % idx, gates, n, edges):
            out.append((idx, m))
    return len(circuits), out


def judge_mub_api(n, conn):
    from .. import impl
    edges = M.edge_table(n, conn)
    out = []
    for k, qc in enumerate(impl.mub_circuits.get_mub_circuits(n, conn)):
        out += off_edge_msgs("mub circuit %d" % k, impl.circuit_ops(qc), n, edges)
    return out


# ------------------------------------------------------------------------------ measurement circuits on qubit lists

def measured_lists(m, N):
    """Ordered lists of m distinct register qubits: all of them for small (m, N), a family otherwise."""
    if (m == 2 and N <= 4) or (m == 3 and N <= 5):
        return [list(p) for p in itertools.permutations(range(N), m)]
    base = list(range(m))
    fam = [base, base[::-1]]
    for k in range(m - 1):
        t = list(base)
        t[k], t[k + 1] = t[k + 1], t[k]
        fam.append(t)
    for k in range(1, m):
        fam.append(base[k:] + base[:k])
    if N > m:
        for skip in range(N):
            fam.append([q for q in range(N) if q != skip][:m])
            fam.append([q for q in range(N) if q != skip][:m][::-1])
        fam.append([N - 1 - q for q in range(m)])
    out = []
    for f in fam:
        if f not in out:
            out.append(f)
    return out


def judge_measurement(m, conn, N, qubits, which):
    """The readout part of tomography / stabilizer-measurement circuits, for a preparation
    circuit on N qubits and the ordered list `qubits`: every two-qubit gate must act on
    listed qubits whose list positions are coupled."""
    from .. import impl
    edges = M.edge_table(m, conn)
    prep = impl.QuantumCircuit(N)
    for q in range(N):
        prep.h(q)
    for q in range(N - 1):
        prep.cx(q, q + 1)
    nprep = len(prep.data)
    ql = None if qubits is None else list(qubits)
    if which.endswith("+objects"):
        # the documented alternative: Qubit objects of the preparation circuit's register instead of indices
        which = which[:-len("+objects")]
        ql = None if qubits is None else [prep.qubits[q] for q in qubits]
    if which == "tomography":
        circuits = impl.tomography.full_state_tomography_circuits(prep, conn, ql)
    else:
        gid = (1 << (m * (m - 1) // 2)) - 1          # complete graph state: every qubit entangled
        stab = impl.Stabilizer(M.gens_str(B.graph_states_gens(m, gid), m))
        circuits = [impl.tomography.stabilizer_measurement_circuit(prep, stab, conn, ql)]
    pos = {q: k for k, q in enumerate(qubits if qubits is not None else range(N))}
    msgs = []
    for k, qc in enumerate(circuits):
        ops = impl.circuit_ops(qc)
        if ops[:nprep] != impl.circuit_ops(prep):
            msgs.append("circuit %d does not start with the preparation circuit" % k)
            continue
        for g in ops[nprep:]:
            if len(g) - 1 >= 2:
                if g[0] not in ("cx", "cz", "swap") or len(g) != 3:
                    msgs.append("circuit %d: multi-qubit instruction %r" % (k, g))
                elif g[1] not in pos or g[2] not in pos:
                    msgs.append("circuit %d: %s touches qubit outside the measured list: %r" % (k, g[0], g))
                elif frozenset((pos[g[1]], pos[g[2]])) not in edges:
                    msgs.append("circuit %d: %s on register qubits (%d,%d) = list positions (%d,%d), not coupled in %s"
                                % (k, g[0], g[1], g[2], pos[g[1]], pos[g[2]], conn))
            elif any(q not in pos for q in g[1:]):
                msgs.append("circuit %d: gate %r outside the measured list" % (k, g))
        if len(msgs) > 3:
            break
    return msgs[:3]


def _meas_work(payload):
    out = []
    n = 0
    hist = core.History()
    for (m, conn, N, qubits, which) in payload:
        n += 1
        try:
            msgs = judge_measurement(m, conn, N, qubits, which)
        except Exception as ex:      # noqa: BLE001
            msgs = ["raised %s: %s" % (type(ex).__name__, str(ex)[:200])]
        case = {"kind": "measurement", "m": m, "conn": conn, "N": N, "qubits": qubits, "which": which}
        if msgs:
            cj = hist.attach(case)
            for msg in msgs:
                out.append((msg, cj))
        hist.add(case)
    return n, out


def check(ctx):
    quick = ctx.tier == "quick"
    ctx.phase("coupling graphs and shipped tables")
    ctx.count("model_identities_checked", selftest.gate_rules_vs_matrices())
    for n, conn in M.CONFIGS:
        msg = judge_graph(n, conn)
        ctx.count("coupling_graphs")
        if msg:
            ctx.violation({"kind": "graph", "n": n, "conn": conn}, "graph: " + msg)
        for kind in ("stabilizer", "mub"):
            try:
                cnt, bad = judge_table_file(kind, n, conn)
            except (tables.TableError, OSError) as e:
                ctx.violation({"kind": "table", "table": kind, "n": n, "conn": conn, "line": -1}, "table: %s%d-%s unreadable: %s" % (kind, n, conn, e))
                continue
            ctx.count("table_circuits", cnt)
            for idx, m in bad:
                ctx.violation({"kind": "table", "table": kind, "n": n, "conn": conn, "line": idx}, "table: %s%d-%s.txt %s" % (kind, n, conn, m))
        for m in judge_mub_api(n, conn):
            ctx.violation({"kind": "mubapi", "n": n, "conn": conn}, "mubapi: n=%d %s %s" % (n, conn, m))
        ctx.count("mub_api_configs")
    ctx.phase("measurement circuits on ordered qubit lists")
    items = []
    for m, conn in M.CONFIGS:
        for N in ([m, m + 1, m + 2] if m <= 3 else [m, m + 1]):
            if N > 8:
                continue
            if N == m:
                items.append((m, conn, N, None, "tomography"))
                items.append((m, conn, N, None, "stabilizer"))
            for ql in measured_lists(m, N):
                if m == 6 and quick and ql not in (list(range(6)), list(range(5, -1, -1)), [1, 0, 2, 3, 4, 5]) and N == 6:
                    continue
                items.append((m, conn, N, ql, "tomography" if (m <= 4 or not quick) else "stabilizer"))
                if m <= 4:
                    items.append((m, conn, N, ql, "stabilizer"))
                if m <= 3 and N == m + 1:
                    items.append((m, conn, N, ql, "tomography+objects"))
                    items.append((m, conn, N, ql, "stabilizer+objects"))
    res = core.pmap(_meas_work, core.chunk_list(items, 64))
    for cnt, bad in res:
        ctx.count("measurement_cases", cnt)
        for msg, case in bad:
            ctx.violation(case, "measurement: m=%d %s N=%d qubits=%s %s: %s" % (case["m"], case["conn"], case["N"], case["qubits"], case["which"], msg))
    ctx.sample({"measurement_case": {"m": 3, "conn": "linear", "N": 5, "qubits": [4, 0, 2], "which": "tomography"}})
    units = conform.standard_units(ctx.tier, sign_mode="light", thin=3)
    conform.run_units(ctx, judge, units)
    ctx.count("transitions", ctx.counters.get("api_cases", 0) + ctx.counters.get("measurement_cases", 0))
    ctx.count("traces_validated_against_impl", ctx.counters.get("measurement_cases", 0) + ctx.counters.get("table_circuits", 0))
    ctx.exhaustive = False
    ctx.notes["states_meaning"] = "distinct signed model states whose preparation/readout/compressed circuits were inspected"
    ctx.assume("edge table transcribed from the property statement; for measured lists adjacency is taken between list positions")


def replay_case(body):
    n, conn, gens, fmt, trace = conform.case_from_json(body)
    try:
        msgs, _ = judge(n, conn, gens, fmt, trace)
    except Exception as ex:      # noqa: BLE001
        return "raised %s: %s" % (type(ex).__name__, ex)
    return "; ".join(msgs) if msgs else None


def replay_measurement(body):
    try:
        msgs = judge_measurement(body["m"], body["conn"], body["N"], body["qubits"], body["which"])
    except Exception as ex:      # noqa: BLE001
        return "raised %s: %s" % (type(ex).__name__, ex)
    return "; ".join(msgs) if msgs else None


def replay_table(body):
    try:
        _, bad = judge_table_file(body["table"], body["n"], body["conn"])
    except (tables.TableError, OSError) as e:
        return str(e)
    for idx, m in bad:
        if idx == body["line"]:
            return m
    return None


REPLAY = {"case": replay_case, "measurement": replay_measurement, "table": replay_table,
          "graph": lambda b: judge_graph(b["n"], b["conn"]),
          "mubapi": lambda b: ("; ".join(judge_mub_api(b["n"], b["conn"])) or None)}
