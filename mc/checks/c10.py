"""C10 -- full-state tomography reconstructs every state exactly from exact statistics.

Reduction (DESIGN.md section 5, C10): the reported value for key P equals Tr(rho P) for
EVERY density matrix iff (A) the delivered readout part U_c maps P to s*Z^i as operators
and (B) the estimator is the functional p -> s * sum_b p(b) (-1)^(b.i) on distributions keyed
the way Qiskit keys them.  Both are finite statements and are enumerated completely: every
configuration x every circuit x every pattern x every point-mass outcome (plus mixtures);
(C) re-checks the composition end to end on all signed stabilizer states (which span the
operator space) and on non-stabilizer probes through a dense simulator."""
import itertools
import numpy as np

from .. import core, model as M, binding as B, selftest, tomo, programs

KIND = "tomography"


def judge(m, conn, N, qubits, prep_ops, dist_spec, kind=KIND, group=None, check_density=False):
    """One fitter evaluation.  dist_spec: ('point', b) | ('mix', b, b2, w, w2) | ('state',) | ('dense',)."""
    ql = list(range(N)) if qubits is None else list(qubits)
    try:
        prep, circuits = tomo.build_circuits(kind, m, conn, N, qubits, prep_ops, group)
        from .. import impl
        pops = impl.circuit_ops(prep)
        delivered = [tomo.delivered_part(c, pops) for c in circuits]
    except ValueError as e:
        return ["circuit shape: %s" % e]
    for d in delivered:
        bad = M.check_alphabet(d, N)
        if bad:
            return ["measurement circuit: " + bad]
        if any(q not in ql for g in d for q in g[1:]):
            return ["readout part touches a qubit outside the measured list"]
    table = tomo.expected_table(delivered, ql, N)
    dists = []
    if dist_spec[0] == "point":
        dists = [{dist_spec[1]: 1}] * len(circuits)
    elif dist_spec[0] == "mix":
        dists = [{dist_spec[1]: dist_spec[3], dist_spec[2]: dist_spec[4]}] * len(circuits)
    elif dist_spec[0] == "mix3":
        d = {}
        for b, w in zip(dist_spec[1:4], dist_spec[4:7]):
            d[b] = d.get(b, 0) + w
        dists = [d] * len(circuits)
    elif dist_spec[0] == "state":
        for d in delivered:
            outs = tomo.stabilizer_outcomes(M.run(list(prep_ops) + d, N), N)
            dists.append({b: 1 for b in outs})
    elif dist_spec[0] == "dense":
        psi = tomo.dense_run(prep_ops, N)
        for d in delivered:
            v = tomo.dense_run(d, N, psi.copy())
            pr = np.abs(v) ** 2
            dists.append({b: float(pr[b]) for b in range(1 << N) if pr[b] > 1e-15})
    counts = [{tomo.key_of(b, N): w for b, w in dist.items()} for dist in dists]
    msgs = []
    modes = [True] if qubits is None else [True, False]
    for full in modes:
        try:
            f, ev = tomo.fit(kind, circuits, counts, full)
        except Exception as ex:      # noqa: BLE001
            msgs.append("fitter raised %s: %s" % (type(ex).__name__, str(ex)[:120]))
            continue
        tol = 1e-9
        msgs += [("full-register mode: " if full else "reduced mode: ") + s for s in tomo.compare(ev, table, dists, ql, N, full, tol)]
        nq = N if full else len(ql)
        if group is not None:
            # stabilizer measurement: exactly the 2^m unsigned elements of the measured group, identity included
            mm = len(ql)
            span = M.span_unsigned(M.parse_gens(group), mm)
            want_keys = set()
            for v in span:
                pm = (v & ((1 << mm) - 1), v >> mm)
                want_keys.add(tomo.embed(pm, ql) if full else pm)
            got_keys = {tomo.pauli_to_model(p)[:2] for p in ev}
            if got_keys != want_keys or len(ev) != 1 << mm:
                msgs.append("%s: reported keys are not exactly the 2^%d elements of the measured group (%d reported, %d of them in the group)"
                            % ("full-register mode" if full else "reduced mode", mm, len(ev), len(got_keys & want_keys)))
            ident = [v for p, v in ev.items() if tomo.pauli_to_model(p)[:2] == (0, 0)]
            if ident != [1.0]:
                msgs.append("identity is reported as %r" % (ident,))
        # against the state itself
        if dist_spec[0] in ("state", "dense"):
            gens = M.run(prep_ops, N) if dist_spec[0] == "state" else None
            psi = tomo.dense_run(prep_ops, N) if dist_spec[0] == "dense" else None
            for p, v in ev.items():
                x, z, ph, ln = tomo.pauli_to_model(p)
                px = (x, z) if full else tomo.embed((x, z), ql)
                want = tomo.state_value(gens, px, N) if gens is not None else tomo.dense_expectation(psi, px, N)
                if abs(v - want) > 1e-9:
                    msgs.append("%s: reported <%s> = %r, Tr(rho P) = %r" % ("full-register mode" if full else "reduced mode",
                                                                            M.pauli_str(M.herm(x, z, 0), nq, False), v, want))
                    break
            if kind == KIND and len(ev) != 4 ** len(ql):
                msgs.append("fitter reports %d Paulis, expected 4^%d" % (len(ev), len(ql)))
            if check_density and gens is not None and kind == KIND:
                try:
                    rho = np.asarray(f.density_matrix(full_hilbert_space=full))
                    want_rho = model_density(gens, N, ql, full, table if kind != KIND else None)
                    if rho.shape != want_rho.shape or not np.allclose(rho, want_rho, atol=1e-9):
                        msgs.append("%s: density_matrix() differs from the exact %s state (max error %.3g)" % (
                            "full-register mode" if full else "reduced mode", "register" if full else "reduced",
                            float(np.max(np.abs(rho - want_rho))) if rho.shape == want_rho.shape else -1))
                except Exception as ex:      # noqa: BLE001
                    msgs.append("density_matrix raised %s" % type(ex).__name__)
    return msgs[:4]


def model_density(gens, N, ql, full, table=None):
    """(1/2^k) sum over the reported Pauli set of Tr(rho P) P.  Tomography: all Paulis on the listed qubits."""
    m = len(ql)
    if full:
        dim = 1 << N
        rho = np.zeros((dim, dim), dtype=complex)
        for x in range(1 << m):
            for z in range(1 << m):
                px = tomo.embed((x, z), ql)
                val = tomo.state_value(gens, px, N)
                if val:
                    rho += val * selftest.pauli_matrix(M.herm(px[0], px[1], 0), N)
        return rho / dim
    dim = 1 << m
    rho = np.zeros((dim, dim), dtype=complex)
    for x in range(1 << m):
        for z in range(1 << m):
            val = tomo.state_value(gens, tomo.embed((x, z), ql), N)
            if val:
                rho += val * selftest.pauli_matrix(M.herm(x, z, 0), m)
    return rho / dim


def _work(payload):
    fails = []
    cnt = 0
    hist = core.History()
    for item in payload:
        cnt += 1
        m, conn, N, qubits, prep_ops, spec, dens = item
        try:
            msgs = judge(m, conn, N, qubits, [tuple(g) for g in prep_ops], tuple(spec), check_density=dens)
        except Exception as ex:      # noqa: BLE001
            import traceback
            msgs = ["raised %s: %s" % (type(ex).__name__, traceback.format_exc()[-300:])]
        case = {"kind": "fit", "m": m, "conn": conn, "N": N, "qubits": qubits,
                "prep": [list(g) for g in prep_ops], "dist": list(spec), "density": dens}
        if msgs:
            cj = hist.attach(case)
            for msg in msgs[:2]:
                fails.append((msg, cj))
        hist.add(case)
    return cnt, fails


def run_items(ctx, label, items, worker=None):
    ctx.phase("%s (%d fitter runs)" % (label, len(items)))
    nch = max(1, min(len(items), core.NPROC * 2))
    for cnt, fails in core.pmap(worker or _work, [items[k::nch] for k in range(nch)]):
        ctx.count("evaluations", cnt)
        for m, case in sorted(fails, key=lambda t: (len(core.canon_json(t[1])), core.canon_json(t[1]))):
            ctx.violation(case, "fit: m=%d %s N=%d qubits=%s dist=%s prep=[%s]: %s" % (
                case["m"], case["conn"], case["N"], case["qubits"], case["dist"], programs.show(case["prep"])[:80], m))
    ctx.bounds.setdefault("explored", {})[label] = len(items)


PROBES = [
    [("h", 0), ("t", 0), ("cx", 0, 1), ("ry", 1, 0.7)],
    [("ry", 0, 1.1), ("ry", 1, 2.3), ("t", 1), ("h", 1)],
    [("h", 0), ("cx", 0, 1), ("t", 1), ("h", 1), ("t", 1), ("cx", 1, 0)],
]


def check(ctx):
    quick = ctx.tier == "quick"
    ctx.count("model_identities_checked", selftest.gate_rules_vs_matrices())
    B.warm((2, 3, 4))
    # (A)+(B): point masses on every outcome, every configuration
    for n, conn in M.CONFIGS:
        if n == 6 and quick:
            outs = [0, 63] + [1 << q for q in range(6)] + [0b101101]
            label = "n=6 %s: point masses on 0, 1..1, the unit outcomes and 101101" % conn
        else:
            outs = list(range(1 << n))
            label = "n=%d %s: point masses on all %d outcomes" % (n, conn, 1 << n)
        prep = [("h", 0), ("cx", 0, n - 1)]
        items = [(n, conn, n, None, prep, ("point", b), False) for b in outs]
        ctx.count("states", len(items) * ((1 << n) + 1) * ((1 << n) - 1))
        ctx.count("transitions", len(items) * ((1 << n) + 1) * ((1 << n) - 1))
        run_items(ctx, label, items)
    # affinity: every two-outcome mixture, integer and float weights
    items = []
    for n, conn in [c for c in M.CONFIGS if c[0] <= 3]:
        for b, b2 in itertools.combinations(range(1 << n), 2):
            items.append((n, conn, n, None, [], ("mix", b, b2, 1, 3), False))
            items.append((n, conn, n, None, [], ("mix", b, b2, 0.25, 0.75), False))
    run_items(ctx, "n<=3: all two-outcome mixtures with weights (1,3) and (0.25,0.75)", items)
    # (C) end to end: every signed stabilizer state
    for n in (2, 3, 4):
        g = B.sg(n)
        confs = M.configs_for(n)
        step = 1 if (n < 4 or not quick) else 24
        items = []
        for i in range(0, g.N, step):
            for s in (range(1 << n) if n < 4 else ([i % 16] if quick else range(16))):
                tr = programs.decorated_trace(g, i, s)
                for conn in (confs if n < 4 else [confs[(i + s) % 4]]):
                    items.append((n, conn, n, None, tr, ("state",), n <= 3 or (i % 5 == 0)))
        ctx.count("states", len(items))
        run_items(ctx, "n=%d: end to end on %s signed stabilizer state (exact affine-subspace statistics)" % (n, "every" if step == 1 else "every 24th group's"), items)
    for n in (5, 6):
        g = B.sg(n)
        items = [(n, M.configs_for(n)[k % len(M.configs_for(n))], n, None, programs.decorated_trace(g, i, i % (1 << n)), ("state",), False)
                 for k, i in enumerate(range(0, g.N, g.N // (12 if quick else 60)))]
        ctx.count("states", len(items))
        run_items(ctx, "n=%d: end to end on a few stabilizer states per configuration" % n, items)
    # non-stabilizer probes through the dense simulator (sanity check of the reduction)
    items = []
    for n, conn in [c for c in M.CONFIGS if c[0] <= 4]:
        for pr in PROBES:
            prep = [g for g in pr] + ([("cx", 1, 2), ("t", 2)] if n >= 3 else []) + ([("h", 3), ("cx", 3, 0)] if n >= 4 else [])
            items.append((n, conn, n, None, prep, ("dense",), False))
    run_items(ctx, "n<=4: non-stabilizer probe states (T gates, irrational rotations) through a dense simulator", items)
    ctx.sample({"n": 3, "conn": "linear", "prep": "h0 cx0,2", "distribution": "point mass on outcome 5 ('101')",
                "check": "every reported value equals s*(-1)^(a.b) derived from the delivered circuit in the model"})
    ctx.count("traces_validated_against_impl", ctx.counters["evaluations"])
    ctx.count("distinct_nontrivial", ctx.counters["evaluations"])
    ctx.exhaustive = not quick
    ctx.rule = "one fitter evaluation per (configuration, preparation, distribution); all distinct"
    ctx.notes["states_meaning"] = "(circuit, pattern, outcome) triples of parts (A),(B) + stabilizer states of part (C)"
    ctx.assume("linearity reduction of DESIGN.md section 5 (C10): exactness for all density matrices follows from the operator identity per (circuit, pattern) and the estimator being the stated linear functional")
    ctx.assume("count keys are Qiskit's little-endian bit strings over the whole register (verified: measure q -> clbit q)")


def replay(body):
    msgs = judge(body["m"], body["conn"], body["N"], body["qubits"], [tuple(g) for g in body["prep"]], tuple(body["dist"]),
                 kind=body.get("fitter", KIND), group=body.get("group"), check_density=body.get("density", False))
    return "; ".join(msgs) if msgs else None


REPLAY = {"fit": replay}
