"""C16 -- the local-Clifford layer search is sound and complete.

Inputs: (set of m <= n Pauli operators on n qubits, graph on n vertices).
Oracle: for full valid stabilizers existence is, by definition of the model,
"same connected component of the state graph under H_q,S_q as the graph state";
for every other operator set (partial, dependent, non-commuting, with identities)
existence is decided by brute force over all 6^n layers (n <= 4)."""
import itertools
import numpy as np

from .. import core, model as M, binding as B, conform, selftest

# the six invertible 2x2 matrices over GF(2) as (axx, axz, azx, azz):  x' = axx x + axz z,  z' = azx x + azz z
BLOCKS = [(1, 0, 0, 1), (0, 1, 1, 0), (1, 0, 1, 1), (1, 1, 1, 0), (0, 1, 1, 1), (1, 1, 0, 1)]


def gamma_x(adj, x):
    out = 0
    q = 0
    while x:
        if x & 1:
            out ^= adj[q]
        x >>= 1
        q += 1
    return out


def apply_layer(blocks, p, n):
    """blocks[q] = (axx, axz, azx, azz) acting on the (x_q, z_q) bits of unsigned Pauli p=(x,z)."""
    x, z = p
    xo = zo = 0
    for q in range(n):
        xq, zq = (x >> q) & 1, (z >> q) & 1
        b = blocks[q]
        xo |= ((b[0] & xq) ^ (b[1] & zq)) << q
        zo |= ((b[2] & xq) ^ (b[3] & zq)) << q
    return xo, zo


def layer_ok(blocks, ops, adj, n):
    for p in ops:
        x, z = apply_layer(blocks, p, n)
        if gamma_x(adj, x) != z:
            return False
    return True


def brute_exists(ops, adj, n):
    for choice in itertools.product(BLOCKS, repeat=n):
        if layer_ok(choice, ops, adj, n):
            return True
    return False


def judge(n, ops, gid, oracle):
    """ops: list of unsigned Paulis (x, z); oracle: True / False / 'brute'.  Returns list of messages."""
    from .. import impl
    adj = M.graph_id_to_masks(n, gid)
    m = len(ops)
    R = np.zeros((n, m), dtype=np.int8)
    S = np.zeros((n, m), dtype=np.int8)
    for j, (x, z) in enumerate(ops):
        for q in range(n):
            R[q, j] = (x >> q) & 1
            S[q, j] = (z >> q) & 1
    R0, S0 = R.copy(), S.copy()
    graph = impl.Graph.decompress(n, gid)
    try:
        layer = impl.fll.find_local_clifford_layer(R, S, graph)
    except Exception as ex:      # noqa: BLE001
        return ["search raised %s: %s" % (type(ex).__name__, str(ex)[:120])]
    msgs = []
    if not (np.array_equal(R, R0) and np.array_equal(S, S0)):
        msgs.append("the search modified its input matrices")
    exists = brute_exists(ops, adj, n) if oracle == "brute" else oracle
    if layer is None:
        if exists:
            msgs.append("reports absence, but a layer exists")
        return msgs
    # shape and genuineness of the returned blocks
    try:
        blocks = []
        if len(layer) != 4:
            return msgs + ["returned object is not four blocks"]
        arr = [np.asarray(a) for a in layer]
        for a in arr:
            if a.shape != (n, n) or np.any(a - np.diag(np.diag(a))) or not np.isin(a, (0, 1)).all():
                return msgs + ["a returned block is not a diagonal binary %dx%d matrix" % (n, n)]
        for q in range(n):
            b = tuple(int(a[q, q]) for a in arr)
            if b not in BLOCKS:
                return msgs + ["qubit %d gets %r, which is not a single-qubit Clifford" % (q, b)]
            blocks.append(b)
    except Exception as ex:      # noqa: BLE001
        return msgs + ["returned layer is malformed: %s" % ex]
    if not exists:
        msgs.append("returns a layer, but none exists")
    if not layer_ok(blocks, ops, adj, n):
        msgs.append("returned layer %r does not map all operators into the graph state's group" % (blocks,))
    # the gate sequence generated from the layer implements exactly that layer
    try:
        gates = impl.circuit_ops(impl.fll.local_clifford_layer_to_circuit(layer))
    except Exception as ex:      # noqa: BLE001
        return msgs + ["local_clifford_layer_to_circuit raised %s" % type(ex).__name__]
    bad = M.check_alphabet(gates, n, allowed=("h", "s", "sdg"))
    if bad:
        return msgs + ["layer circuit: " + bad]
    for q in range(n):
        for name, p in (("X", (1 << q, 0, 0)), ("Z", (0, 1 << q, 0))):
            img = M.conj_seq(p, gates)
            want = apply_layer(blocks, (p[0], p[1]), n)
            if (img[0], img[1]) != want:
                msgs.append("layer circuit maps %s_%d to (x=%d,z=%d), the blocks say (x=%d,z=%d)" % (name, q, img[0], img[1], want[0], want[1]))
    return msgs


def case_of(n, ops, gid, oracle):
    return {"kind": "layer", "n": n, "ops": [M.pauli_str(M.herm(x, z, 0), n, False) for x, z in ops], "graph_id": gid,
            "oracle": oracle if oracle == "brute" else bool(oracle)}


def _work(payload):
    """payload: list of (n, ops-or-state-index, gid, oracle-spec)."""
    out = []
    cnt = 0
    nontriv = 0
    hist = core.History()
    for n, src, gid, oracle in payload:
        if isinstance(src, int):
            g = B.sg(n)
            key = g.key(src)
            ops = [(k & ((1 << n) - 1), k >> n) for k in key]
            if oracle == "comp":
                gcomp = g.component_of_gens(B.graph_states_gens(n, gid))
                oracle_v = bool(g.comp[src] == gcomp)
            else:
                oracle_v = oracle
        else:
            ops = [tuple(o) for o in src]
            if oracle == "comp":
                g = B.sg(n)
                oracle_v = g.component_of_gens([M.herm(x, z, 0) for x, z in ops]) == g.component_of_gens(B.graph_states_gens(n, gid))
            else:
                oracle_v = oracle
        cnt += 1
        if oracle_v is not False:
            nontriv += 1
        msgs = judge(n, ops, gid, oracle_v)
        case = case_of(n, ops, gid, oracle_v)
        if msgs:
            cj = hist.attach(case)
            for msg in msgs:
                out.append((msg, cj))
        hist.add(case)
    return cnt, nontriv, out


def judge_converter():
    """All 16 block values per qubit: six Cliffords accepted and implemented, ten singular ones rejected."""
    from .. import impl
    msgs = []
    for n, q in ((1, 0), (2, 1), (3, 0)):
        for b in itertools.product((0, 1), repeat=4):
            A = [np.zeros((n, n), dtype=np.int8) for _ in range(4)]
            for j in range(4):
                for d in range(n):
                    A[j][d, d] = (1, 0, 0, 1)[j]
                A[j][q, q] = b[j]
            try:
                gates = impl.circuit_ops(impl.fll.local_clifford_layer_to_circuit(A))
                rejected = False
            except Exception:      # noqa: BLE001
                rejected = True
            if b in BLOCKS:
                if rejected:
                    msgs.append("converter rejects the Clifford block %r" % (b,))
                    continue
                for name, p in (("X", (1 << q, 0, 0)), ("Z", (0, 1 << q, 0))):
                    img = M.conj_seq(p, gates)
                    blocks = [(1, 0, 0, 1)] * n
                    blocks[q] = b
                    if (img[0], img[1]) != apply_layer(blocks, (p[0], p[1]), n):
                        msgs.append("converter implements block %r wrongly on %s" % (b, name))
            elif not rejected:
                msgs.append("converter accepts the singular block %r" % (b,))
    return msgs


def all_paulis(n):
    return [(x, z) for z in range(1 << n) for x in range(1 << n)]


def check(ctx):
    quick = ctx.tier == "quick"
    ctx.count("model_identities_checked", selftest.gate_rules_vs_matrices())
    B.warm()
    for msg in judge_converter():
        ctx.violation({"kind": "converter"}, "converter: " + msg)
    ctx.count("evaluations", 48)
    items = []      # (label, list of payload items)
    # n = 2: every ordered set of m <= 2 Paulis (identity, dependent, anticommuting included) x both graphs
    P2 = all_paulis(2)
    items.append(("n=2: all ordered sets of 1 or 2 Paulis x all graphs",
                  [(2, [p], gid, "brute") for p in P2 for gid in range(2)] +
                  [(2, [p, q], gid, "brute") for p in P2 for q in P2 for gid in range(2)]))
    # n = 3
    P3 = all_paulis(3)
    items.append(("n=3: all single Paulis and all ordered pairs x all 8 graphs",
                  [(3, [p], gid, "brute") for p in P3 for gid in range(8)] +
                  [(3, [p, q], gid, "brute") for p in P3 for q in (P3 if not quick else P3[::3]) for gid in range(8)]))
    g3 = B.sg(3)
    items.append(("n=3: all groups (presentations within one move) x all 8 graphs, component oracle",
                  [(3, [(p[0], p[1]) for p in pres], gid, "comp") for i in range(g3.N) for pres in M.presentations(g3.gens(i), 1) for gid in range(8)]))
    if not quick:
        items.append(("n=3: ALL ordered triples of Paulis x all 8 graphs (brute-force oracle)",
                      [(3, [p, q, r], gid, "brute") for p in P3 for q in P3 for r in P3 for gid in range(8)]))
    else:
        items.append(("n=3: ordered triples of Paulis, residue class (code = 0 mod 37) x all 8 graphs (brute-force oracle)",
                      [(3, [P3[c // 4096], P3[(c // 64) % 64], P3[c % 64]], gid, "brute") for c in range(0, 64 ** 3, 37) for gid in range(8)]))
    # n = 4
    g4 = B.sg(4)
    graphs4 = list(range(64)) if not quick else list(range(0, 64, 4)) + [63, 37, 7]
    items.append(("n=4: all 2295 groups x %d graphs, component oracle" % len(graphs4),
                  [(4, i, gid, "comp") for i in range(g4.N) for gid in graphs4]))
    pre = []
    for i in range(0, g4.N, (16 if quick else 2)):
        key = g4.key(i)
        ops = [(k & 15, k >> 4) for k in key]
        for m in (1, 2, 3):
            for gid in ((i % 64), (i * 7 + 5) % 64):
                pre.append((4, ops[:m], gid, "brute"))
    items.append(("n=4: generator prefixes (m = 1..3) of groups, brute-force oracle over 6^4 layers", pre))
    # n = 5
    g5 = B.sg(5)
    tg5 = sorted(set(conform.rep_gids(5)))
    items.append(("n=5: groups x table graphs (all classes), component oracle",
                  [(5, i, gid, "comp") for i in range(0, g5.N, (64 if quick else 4)) for gid in tg5[(i // 64) % 3::3]]))
    items.append(("n=5: table graph states x graphs, component oracle",
                  [(5, [(p[0], p[1]) for p in B.graph_states_gens(5, g)], gid, "comp") for g in tg5[::(4 if quick else 1)]
                   for gid in range(0, 1024, (16 if quick else 1))]))
    # n = 6
    reps6 = conform.table_graphs(6, "all")
    pl6 = []
    for k, g in enumerate(reps6[::(8 if quick else 1)]):
        gens = B.graph_states_gens(6, g)
        for c in range(1 if quick else 6):
            choice = [(k + q * (c + 1) + c) % 6 for q in range(6)]
            ops = [(p[0], p[1]) for p in M.run(M.local_layer_gates(choice), 6, gens)]
            others = reps6[(k * 13 + c) % len(reps6)::(97 if quick else 5)]
            for gid in [g] + others:
                pl6.append((6, ops, gid, "comp"))
    items.append(("n=6: locally rotated table graph states x own and other classes' table graphs, component oracle", pl6))
    uni = []
    for n, conn in M.CONFIGS:
        for gid in conform.table_graphs(n, conn):
            base = B.graph_states_gens(n, gid)
            for c in range(6):
                ops = [(p[0], p[1]) for p in M.run(M.local_layer_gates([c] * n), n, base)]
                uni.append((n, ops, gid, True))
    items.append(("all configurations: every table graph state under the same local Clifford on every qubit vs its own graph (a layer exists)", uni))
    for label, payload in items:
        ctx.phase("%s (%d cases)" % (label, len(payload)))
        nch = min(len(payload), core.NPROC * 2)
        res = core.pmap(_work, [payload[k::nch] for k in range(nch)])
        for cnt, nontriv, fails in res:
            ctx.count("evaluations", cnt)
            ctx.count("distinct_nontrivial", nontriv)
            for msg, case in sorted(fails, key=lambda t: (len(core.canon_json(t[1])), core.canon_json(t[1]))):
                ctx.violation(case, "layer: n=%d ops=%s graph=%d: %s" % (case["n"], case["ops"], case["graph_id"], msg))
        ctx.bounds.setdefault("explored", {})[label] = len(payload)
    ctx.sample(case_of(3, [(1, 6), (2, 1), (4, 1)], 3, True))
    ctx.exhaustive = False
    ctx.count("states", ctx.counters["evaluations"])
    ctx.count("transitions", ctx.counters["evaluations"])
    ctx.count("traces_validated_against_impl", ctx.counters["evaluations"])
    ctx.rule = ("(operator set, graph) pairs as listed in bounds; non-trivial = pairs for which a layer exists (the oracle says so); "
                "complete for n=2, for n=3 with m<=2 (and m=3 in thorough), for n=4 over all groups (all 64 graphs in thorough)")
    ctx.notes["states_meaning"] = "(operator set, graph) pairs; one search invocation each"


def replay_layer(body):
    n = body["n"]
    ops = [(p[0], p[1]) for p in M.parse_gens(body["ops"])]
    oracle = body["oracle"]
    if oracle != "brute" and n <= 4:
        oracle = "brute"
    msgs = judge(n, ops, body["graph_id"], oracle)
    return "; ".join(msgs) if msgs else None


REPLAY = {"layer": replay_layer, "converter": lambda b: ("; ".join(judge_converter()) or None)}
