"""C14 -- all input formats of a stabilizer describe the same signed group."""
import itertools
import numpy as np

from .. import core, model as M, binding as B, selftest, programs


LETTERS = "IXYZ"


def all_signed_paulis(n):
    for sign in "+-":
        for letters in itertools.product(LETTERS, repeat=n):
            yield sign + "".join(letters)


def judge_strings(strs, plain=False):
    """strings -> object -> strings round trip, mirror export, R/S/phases bits."""
    from .. import impl
    n = len(strs)
    given = [s[1:] if (plain and s[0] == "+") else s for s in strs]
    passed = list(given)
    st = impl.Stabilizer(passed)
    msgs = []
    if passed != given:
        msgs.append("the constructor changed the list of strings passed in: %r -> %r" % (given, passed))
    if st.num_qubits != n:
        return ["num_qubits = %r" % st.num_qubits]
    out = st.to_list()
    if out != list(strs):
        msgs.append("to_list() = %r" % (out,))
    rev = st.to_list(qiskit_convention=True)
    if rev != [s[0] + s[1:][::-1] for s in strs]:
        msgs.append("reversed export = %r" % (rev,))
    R, S, ph = np.asarray(st.R), np.asarray(st.S), np.asarray(st.phases)
    if R.shape != (n, n) or S.shape != (n, n) or ph.shape != (n,):
        return msgs + ["R/S/phases shapes %r %r %r" % (R.shape, S.shape, ph.shape)]
    for j, s in enumerate(strs):
        p = M.parse_pauli(s)
        for q in range(n):
            if int(R[q, j]) != (p[0] >> q) & 1 or int(S[q, j]) != (p[1] >> q) & 1:
                msgs.append("R/S bits of generator %d (%s) on qubit %d are (%d,%d)" % (j, s, q, R[q, j], S[q, j]))
                return msgs
        if int(ph[j]) != M.sign_of(p):
            msgs.append("phase bit of generator %d (%s) is %d" % (j, s, ph[j]))
    return msgs


def judge_matrices(strs):
    """Matrix formats (with / without phases, int8 / int64) equal the string format."""
    from .. import impl
    n = len(strs)
    gens = M.parse_gens(strs)
    R, S, ph = impl.gens_to_matrices(gens, n)
    ref = impl.Stabilizer(list(strs))
    msgs = []
    variants = [("int8+phases", (R, S, ph)), ("int64+phases", (R.astype(np.int64), S.astype(np.int64), ph.astype(np.int64))),
                ("float64+phases", (R.astype(np.float64), S.astype(np.float64), ph.astype(np.float64))),
                ("bool+phases", (R.astype(bool), S.astype(bool), ph.astype(bool))),
                ("int8 matrices + float phases", (R, S, ph.astype(np.float64)))]
    if not ph.any():
        variants += [("int8", (R, S)), ("int64", (R.astype(np.int64), S.astype(np.int64)))]
    for name, data in variants:
        snap = [d.copy() for d in data]
        st = impl.Stabilizer(tuple(data))
        if st.to_list() != list(strs) or not (st == ref):
            msgs.append("matrix format %s gives %r" % (name, st.to_list()))
        if any(not np.array_equal(a, b) for a, b in zip(snap, data)):
            msgs.append("matrix format %s: constructor modified its input arrays" % name)
    return msgs


def judge_graph(n, gid):
    from .. import impl
    masks = M.graph_id_to_masks(n, gid)
    st = impl.Stabilizer(impl.Graph.decompress(n, gid))
    want = M.gens_str(M.graph_state_gens(n, masks), n)
    if st.to_list() != want:
        return ["Stabilizer(graph %d) = %r, expected %r" % (gid, st.to_list(), want)]
    if gid:
        # the library's own graph -> circuit conversion must denote the same signed group (graphs with at least
        # one edge; for the edgeless graph to_circuit() raises on the pinned tree, which no property covers)
        g = impl.Graph.decompress(n, gid)
        ops = impl.circuit_ops(g.to_circuit(), keep_measure=True)
        bad = M.check_alphabet(ops, n)
        if bad:
            return ["Graph.to_circuit(): " + bad]
        if M.canon(M.run(ops, n), n) != M.canon(M.graph_state_gens(n, masks), n):
            return ["Graph.to_circuit() of graph %d does not prepare the graph state X_v Z_N(v)" % gid]
        if M.canon(impl.stabilizer_gens(impl.Stabilizer(g.to_circuit())), n) != M.canon(M.graph_state_gens(n, masks), n):
            return ["Stabilizer(graph.to_circuit()) differs from Stabilizer(graph) for graph %d" % gid]
    return []


def judge_program(n, prog):
    """Stabilizer(circuit) generates exactly the signed stabilizer group of circuit|0..0>."""
    from .. import impl
    qc = impl.ops_to_circuit(prog, n)
    st = impl.Stabilizer(qc)
    try:
        got = M.canon(M.parse_gens(st.to_list()), n)
    except ValueError as e:
        return ["Stabilizer(circuit) exports a non-Hermitian generator: %s" % e]
    want = M.canon(M.run(prog, n), n)
    if got != want or st.num_qubits != n:
        return ["Stabilizer(circuit) = %r, the circuit prepares the group %r" % (
            st.to_list(), [M.pauli_str(M.herm(*r), n) for r in want])]
    return []


def case_of(kind, it):
    case = {"kind": kind}
    if kind in ("strings", "matrices"):
        case["strs"] = list(it)
    elif kind == "graph":
        case["n"], case["graph_id"] = it
    else:
        case["n"], case["program"] = it[0], [list(g) for g in it[1]]
    return case


def _work(payload):
    kind, items = payload
    fails = []
    hist = core.History(to_case=lambda it: case_of(kind, it))
    for it in items:
        try:
            if kind == "strings":
                msgs = judge_strings(it) + judge_strings(it, plain=True)
            elif kind == "matrices":
                msgs = judge_matrices(it)
            elif kind == "graph":
                msgs = judge_graph(*it)
            else:
                msgs = judge_program(it[0], [tuple(g) for g in it[1]])
        except Exception as ex:      # noqa: BLE001
            msgs = ["raised %s: %s" % (type(ex).__name__, str(ex)[:160])]
        if msgs:
            cj = hist.attach(case_of(kind, it))
            for m in msgs[:2]:
                fails.append((m, it, cj))
        hist.add(it)
    return len(items), fails


def run_items(ctx, label, kind, items):
    ctx.phase("%s (%d)" % (label, len(items)))
    nch = max(1, min(len(items), core.NPROC * 2))
    for cnt, fails in core.pmap(_work, [(kind, items[k::nch]) for k in range(nch)]):
        ctx.count("evaluations", cnt)
        ctx.count(kind + "_cases", cnt)
        for m, it, case in sorted(fails, key=lambda t: (len(str(t[1])), str(t[1]))):
            ctx.violation(case, "%s: %s: %s" % (kind, it if kind != "program" else programs.show(it[1]), m))
    ctx.bounds.setdefault("explored", {})[label] = len(items)


def check(ctx):
    quick = ctx.tier == "quick"
    ctx.count("model_identities_checked", selftest.gate_rules_vs_matrices())
    B.warm((2, 3, 4, 5))
    # ---- strings: ALL signed lists for n = 2; n = 3 all (thorough) / a complete residue class (quick)
    P2 = list(all_signed_paulis(2))
    run_items(ctx, "n=2: all 1024 signed string lists", "strings", [(a, b) for a in P2 for b in P2])
    P3 = list(all_signed_paulis(3))
    if quick:
        lists3 = [(P3[c // 16384], P3[(c // 128) % 128], P3[c % 128]) for c in range(0, 128 ** 3, 61)]
        run_items(ctx, "n=3: signed string lists, residue class code = 0 mod 61", "strings", lists3)
    else:
        run_items(ctx, "n=3: ALL 2097152 signed string lists", "strings", [(a, b, c) for a in P3 for b in P3 for c in P3])
    for n in (4, 5, 6):
        base = M.gens_str(B.graph_states_gens(n, (0b101101 * 73) % (1 << (n * (n - 1) // 2))), n)
        items = []
        for row in range(n):
            for s in all_signed_paulis(n):
                lst = list(base)
                lst[row] = s
                items.append(tuple(lst))
        run_items(ctx, "n=%d: every signed Pauli in every row position" % n, "strings", items if not quick else items[::(1 if n < 6 else 4)])
    # ---- matrices: all valid groups n<=3 with all signs; n=4 all groups; deviations
    for n in (2, 3, 4):
        g = B.sg(n)
        items = [tuple(M.gens_str(g.gens(i, s), n)) for i in range(g.N) for s in (range(1 << n) if n <= 3 else (0, i % 16))]
        run_items(ctx, "n=%d: matrix formats for all groups" % n, "matrices", items)
    run_items(ctx, "n=2: matrix formats for all signed lists (valid or not)", "matrices", [(a, b) for a in P2 for b in P2])
    # ---- graphs
    for n in (2, 3, 4, 5, 6):
        run_items(ctx, "n=%d: all graphs" % n, "graph", [(n, gid) for gid in range(1 << (n * (n - 1) // 2))])
    # ---- circuits (DESIGN section 4, link 3)
    progs = [(2, p) for p in programs.all_programs(2, 3)]
    run_items(ctx, "n=2: all programs over the full gate set, length <= 3", "program", progs)
    progs = [(3, p) for p in programs.all_programs(3, 2 if not quick else 1)]
    run_items(ctx, "n=3: all programs of length <= %d" % (2 if not quick else 1), "program", progs)
    for n in (2, 3, 4):
        g = B.sg(n)
        sig = range(1 << n)
        step = 1 if (n < 4 or not quick) else 4
        items = [(n, programs.decorated_trace(g, i, s)) for i in range(0, g.N, step) for s in sig]
        ctx.count("states", len(items))
        run_items(ctx, "n=%d: decorated BFS trace of every signed state%s" % (n, "" if step == 1 else " (every 4th group)"), "program", items)
    g5 = B.sg(5)
    items = [(5, programs.decorated_trace(g5, i, i % 32)) for i in range(0, g5.N, (1 if not quick else 16))]
    ctx.count("states", len(items))
    run_items(ctx, "n=5: decorated BFS traces, sign pattern = index mod 32", "program", items)
    if not quick:
        g6 = B.sg(6)
        items = [(6, programs.decorated_trace(g6, i, (i // 64) % 64)) for i in range(0, g6.N, 64)]
        ctx.count("states", len(items))
        run_items(ctx, "n=6: decorated BFS traces of every 64th group", "program", items)
    ctx.sample({"strings": ["+XZ", "-ZY"], "R": [[1, 0], [0, 1]], "S": [[0, 1], [1, 1]], "phases": [0, 1]})
    ctx.sample({"program": programs.show(programs.decorated_trace(B.sg(3), 77, 5))})
    ctx.count("transitions", ctx.counters.get("program_cases", 0))
    ctx.count("traces_validated_against_impl", ctx.counters.get("program_cases", 0))
    ctx.count("distinct_nontrivial", ctx.counters.get("evaluations", 0))
    ctx.exhaustive = False
    ctx.rule = ("string lists / matrices / graphs / programs enumerated as listed in bounds (each case distinct by construction); "
                "states = signed model states reached by a trace program")


def replay(body):
    kind = body["kind"]
    try:
        if kind == "strings":
            msgs = judge_strings(tuple(body["strs"])) + judge_strings(tuple(body["strs"]), plain=True)
        elif kind == "matrices":
            msgs = judge_matrices(tuple(body["strs"]))
        elif kind == "graph":
            msgs = judge_graph(body["n"], body["graph_id"])
        else:
            msgs = judge_program(body["n"], [tuple(g) for g in body["program"]])
    except Exception as ex:      # noqa: BLE001
        msgs = ["raised %s: %s" % (type(ex).__name__, ex)]
    return "; ".join(msgs) if msgs else None


REPLAY = {"strings": replay, "matrices": replay, "graph": replay, "program": replay}
