"""C08 -- no silent wrong answers: invalid or unsupported requests are rejected."""
import itertools
import numpy as np

from .. import core, model as M, binding as B, selftest, conform
from .c01 import DELIVERED_ALPHABET


def judge_requests(shared, n, conn, gens, order, valid, msgs, parts):
    """Ask for preparation and readout circuits on the Stabilizer object `shared` (in the given order) and judge the
    outcomes against the operators `gens` the object currently holds."""
    from .. import impl
    for which in order:
        if which == "prep":
            try:
                ops = impl.circuit_ops(impl.stabilizer_circuits.get_preparation_circuit(shared, conn), keep_measure=True)
                returned = True
            except Exception as ex:      # noqa: BLE001
                returned = False
                parts["prep"] = "P!" + type(ex).__name__
            if returned:
                parts["prep"] = "P+"
                if not valid:
                    msgs.append("preparation of a non-stabilizer returned a circuit instead of raising")
                bad = M.check_alphabet(ops, n, allowed=DELIVERED_ALPHABET)
                if bad:
                    msgs.append("preparation: " + bad)
                else:
                    out = M.run(ops, n)
                    for p in gens:
                        if not M.in_group(p, out, n):
                            msgs.append("returned preparation circuit's output is not stabilised by %s%s" % (
                                M.pauli_str(p, n), " (requested after a readout circuit for the same object)" if order[0] == "readout" else ""))
                            break
            elif valid:
                msgs.append("preparation raised on a valid stabilizer (%s)" % parts["prep"])
        else:
            try:
                ops = impl.circuit_ops(impl.stabilizer_circuits.get_readout_circuit(shared, conn), keep_measure=True)
                returned = True
            except Exception as ex:      # noqa: BLE001
                returned = False
                parts["readout"] = "R!" + type(ex).__name__
            if returned:
                parts["readout"] = "R+"
                bad = M.check_alphabet(ops, n, allowed=DELIVERED_ALPHABET)
                if bad:
                    msgs.append("readout: " + bad)
                else:
                    for p in gens:
                        if M.conj_seq(p, ops)[0] != 0:
                            msgs.append("returned readout circuit does not diagonalise %s" % M.pauli_str(p, n))
                            break
            elif valid:
                msgs.append("readout raised on a valid stabilizer (%s)" % parts["readout"])


def judge_edit(n, conn, gens_a, gens_b):
    """One caller-held Stabilizer object: circuits are requested for the operators A, the caller then overwrites
    the object's matrices IN PLACE with the operators B (valid or not), and circuits are requested again.
    The second round is judged against B exactly as a fresh request would be."""
    from .. import impl
    Ra, Sa, pa = impl.gens_to_matrices(gens_a, n)
    shared = impl.Stabilizer((Ra, Sa, pa))
    msgs_a, parts_a = [], {}
    order = ("readout", "prep") if (sum(p[0] for p in gens_b) + n) % 2 == 0 else ("prep", "readout")
    judge_requests(shared, n, conn, gens_a, order, M.is_valid(gens_a, n), msgs_a, parts_a)
    Rb, Sb, pb = impl.gens_to_matrices(gens_b, n)
    shared.R[...] = Rb
    shared.S[...] = Sb
    shared.phases[...] = pb
    msgs, parts = [], {}
    valid = M.is_valid(gens_b, n)
    judge_requests(shared, n, conn, gens_b, order, valid, msgs, parts)
    pre = "after circuits for %s were requested on the same object and its matrices were overwritten in place: " % (M.gens_str(gens_a, n),)
    return msgs_a + [pre + m for m in msgs], ("valid " if valid else "invalid ") + parts.get("prep", "") + " " + parts.get("readout", "")


def judge_input(n, conn, gens, fmt):
    """gens: ANY list of n Hermitian Paulis (valid or not).  Returns (messages, outcome tag)."""
    from .. import impl
    valid = M.is_valid(gens, n)
    msgs = []
    if fmt == "strings":
        def make(validate=False):
            return impl.Stabilizer(M.gens_str(gens, n), validate=validate)
    else:
        def make(validate=False):
            R, S, ph = impl.gens_to_matrices(gens, n)
            return impl.Stabilizer((R, S, ph), validate=validate)
    stab = make()
    try:
        v = bool(stab.validate())
    except Exception as ex:      # noqa: BLE001
        v = "raised %s" % type(ex).__name__
    if v != valid:
        msgs.append("validate() = %r, the operators are %s" % (v, "n commuting independent Paulis" if valid else "not a valid stabilizer"))
    try:
        make(validate=True)
        ctor = True
    except AssertionError:
        ctor = False
    except Exception as ex:      # noqa: BLE001
        ctor = "raised %s" % type(ex).__name__
    if ctor != valid:
        msgs.append("Stabilizer(..., validate=True) %s, the operators are %s" % ("accepted" if ctor is True else "rejected: %r" % ctor, "valid" if valid else "invalid"))
    # preparation and readout are requested on ONE Stabilizer object, in an order that alternates from case to case
    shared = make()
    order = ("prep", "readout") if (sum(p[0] * 3 + p[1] for p in gens) + n) % 2 == 0 else ("readout", "prep")
    parts = {}
    judge_requests(shared, n, conn, gens, order, valid, msgs, parts)
    tag = parts.get("prep", "") + " " + parts.get("readout", "")
    return msgs, ("valid " if valid else "invalid ") + tag


def _work(payload):
    fails = []
    tags = {}
    cnt = 0
    nontriv = 0
    hist = core.History()
    for n, conn, strs, fmt in payload:
        gens = M.parse_gens(strs)
        cnt += 1
        try:
            if isinstance(fmt, (list, tuple)):          # in-place edit: fmt holds the operators the object held before
                msgs, tag = judge_edit(n, conn, M.parse_gens(list(fmt)), gens)
            else:
                msgs, tag = judge_input(n, conn, gens, fmt)
        except Exception as ex:      # noqa: BLE001
            msgs, tag = ["harness-visible exception %s: %s" % (type(ex).__name__, ex)], "error"
        tags[tag] = tags.get(tag, 0) + 1
        if not tag.startswith("valid"):
            nontriv += 1
        if isinstance(fmt, (list, tuple)):
            case = {"kind": "edit", "n": n, "conn": conn, "gens": list(strs), "before": list(fmt)}
        else:
            case = {"kind": "input", "n": n, "conn": conn, "gens": list(strs), "fmt": fmt}
        if msgs:
            cj = hist.attach(case)
            for m in msgs[:2]:
                fails.append((m, cj))
        hist.add(case)
    return cnt, nontriv, tags, fails


def gens_from_code(n, code):
    """(R,S) pair number `code` of the 2^(2 n^2) pairs: bit (j*2n + q) = x bit of generator j on qubit q,
    bit (j*2n + n + q) = z bit."""
    out = []
    for j in range(n):
        row = (code >> (j * 2 * n)) & ((1 << (2 * n)) - 1)
        out.append(M.herm(row & ((1 << n) - 1), row >> n, 0))
    return out


def deviations(gens, n):
    """Single-bit flips of (R|S), one generator replaced by another generator / by a product of two /
    by a Pauli anticommuting with a generator / by the identity."""
    out = []
    for j in range(n):
        for b in range(2 * n):
            g = list(gens)
            x, z = g[j][0], g[j][1]
            if b < n:
                x ^= 1 << b
            else:
                z ^= 1 << (b - n)
            g[j] = M.herm(x, z, M.sign_of(gens[j]))
            out.append(g)
    for j in range(n):
        k = (j + 1) % n
        g = list(gens)
        g[j] = gens[k]
        out.append(g)                                  # duplicate generator
        g = list(gens)
        g[j] = M.mul(gens[k], gens[(j + 2) % n]) if n > 2 else gens[k]
        out.append(g)                                  # product of two others -> dependent
        g = list(gens)
        g[j] = M.herm(0, 0, 0)
        out.append(g)                                  # identity
        g = list(gens)
        g[j] = M.herm(gens[j][0], gens[j][1], 1 - M.sign_of(gens[j]))
        g[k] = gens[j]
        out.append(g)                                  # +P and -P: contradictory
    return out


# ------------------------------------------------------------------------------ configuration gate

NAMES = ["all", "linear", "star", "cycle", "T", "Q", "ladder", "E", "H", "allx", "", "ALL", "ring", None, "Linear", " all", "all "]
ENTRIES = ["prep", "readout", "compress", "mub_circuits", "mubs", "mub_info", "graph", "is_supported", "assert_supported",
           "tomography", "measurement", "tomography_subset", "measurement_subset"]


def call_entry(entry, n, name):
    """Returns True if the entry point serves (n, name), False if it rejects."""
    from .. import impl
    sc, mc, cs, tm = impl.stabilizer_circuits, impl.mub_circuits, impl.connectivity_support, impl.tomography
    _made = []

    def zstab():
        st = impl.Stabilizer([("-" if q % 2 else "+") + "I" * q + "Z" + "I" * (n - 1 - q) for q in range(n)])
        _made.append((st, st.to_list(), st.R.copy(), st.S.copy()))
        return st

    def unchanged():
        return all(st.to_list() == lst and (st.R == R).all() and (st.S == S).all() for st, lst, R, S in _made)
    try:
        if entry == "prep":
            sc.get_preparation_circuit(zstab(), name)
        elif entry == "readout":
            sc.get_readout_circuit(zstab(), name)
        elif entry == "compress":
            qc = impl.QuantumCircuit(n)
            for q in range(n):
                qc.h(q)
            sc.compress_preparation_circuit(qc, name)
        elif entry == "mub_circuits":
            mc.get_mub_circuits(n, name)
        elif entry == "mubs":
            mc.get_mubs(n, name)
        elif entry == "mub_info":
            mc.get_mub_info(n, name)
        elif entry == "graph":
            cs.get_connectivity_graph(n, name)
        elif entry == "is_supported":
            return bool(cs.is_connectivity_supported(n, name))
        elif entry == "assert_supported":
            cs.assert_connectivity_is_supported(n, name)
        elif entry == "tomography":
            tm.full_state_tomography_circuits(impl.QuantumCircuit(n), name)
        elif entry == "measurement":
            tm.stabilizer_measurement_circuit(impl.QuantumCircuit(n), zstab(), name)
        elif entry == "tomography_subset":
            tm.full_state_tomography_circuits(impl.QuantumCircuit(n + 1), name, list(range(1, n + 1)))
        elif entry == "measurement_subset":
            tm.stabilizer_measurement_circuit(impl.QuantumCircuit(n + 1), zstab(), name, list(range(1, n + 1)))
        else:
            raise KeyError(entry)
    except KeyError:
        if entry not in ENTRIES:
            raise
        return False if unchanged() else "modified"
    except Exception:      # noqa: BLE001
        return False if unchanged() else "modified"
    return True if unchanged() else "modified"


def judge_gate(entry, n, name):
    if n == 0 and entry in ("prep", "readout", "measurement", "measurement_subset"):
        return None        # no stabilizer object on zero qubits can be built to make the request
    served = call_entry(entry, n, name)
    if served == "modified":
        return "%s (n=%d, connectivity=%r) changed the stabilizer object passed in" % (entry, n, name)
    want = (n, name) in M.CONFIGS
    if served != want:
        return "%s %s (n=%d, connectivity=%r), which is %s advertised pair" % (
            entry, "serves" if served else "rejects", n, name, "an" if want else "not an")
    return None


def check(ctx):
    quick = ctx.tier == "quick"
    ctx.count("model_identities_checked", selftest.gate_rules_vs_matrices())
    B.warm((2, 3, 4, 5))
    from .. import impl
    ctx.phase("configuration gate: every entry point x n in 0..8 x 17 names")
    avail = impl.connectivity_support.get_available_connectivities()
    if sorted(avail, key=str) != sorted(M.CONFIGS, key=str) or len(avail) != len(set(avail)):
        ctx.violation({"kind": "available"}, "available: get_available_connectivities() = %r" % (avail,))
    for entry in ENTRIES:
        for n in range(0, 9):
            for name in NAMES:
                ctx.count("evaluations")
                ctx.count("gate_cases")
                msg = judge_gate(entry, n, name)
                if msg:
                    ctx.violation({"kind": "gate", "entry": entry, "n": n, "name": name}, "gate: " + msg)
    # ---- inputs
    units = []
    P2 = range(1 << 8)
    items = []
    for code in P2:
        g = gens_from_code(2, code)
        for s in range(4):
            gs = [M.herm(p[0], p[1], (s >> j) & 1) for j, p in enumerate(g)]
            items.append((2, "all", M.gens_str(gs, 2), "matrices" if s % 2 == 0 else "strings"))
    units.append(("n=2: all 256 (R,S) pairs x all 4 sign vectors", items))
    if quick:
        codes = range(0, 1 << 18, 16)
        lab = "n=3: (R,S) pairs with code = 0 mod 16 (16384 of 262144)"
    else:
        codes = range(1 << 18)
        lab = "n=3: ALL 262144 (R,S) pairs"
    items = []
    for code in codes:
        g = gens_from_code(3, code)
        conn = ("all", "linear")[(code >> 4) & 1]
        items.append((3, conn, M.gens_str(g, 3), "matrices"))
        if not quick and code % 8 == 5:
            gs = [M.herm(p[0], p[1], (5 >> j) & 1) for j, p in enumerate(g)]
            items.append((3, conn, M.gens_str(gs, 3), "strings"))
    units.append((lab, items))
    g3 = B.sg(3)
    items = []
    for i in range(g3.N):
        for k, dev in enumerate(deviations(g3.gens(i, i % 8), 3)):
            items.append((3, ("all", "linear")[k % 2], M.gens_str(dev, 3), ("matrices", "strings")[k % 2]))
    units.append(("n=3: every one-entry deviation of every valid group", items))
    g4 = B.sg(4)
    items = []
    for i in range(0, g4.N, (8 if quick else 1)):
        confs = M.configs_for(4)
        for k, dev in enumerate(deviations(g4.gens(i, i % 16), 4)):
            items.append((4, confs[(i + k) % 4], M.gens_str(dev, 4), "matrices"))
    units.append(("n=4: deviations of %s group" % ("every 8th" if quick else "every"), items))
    for n in (5, 6):
        items = []
        confs = M.configs_for(n)
        gids = conform.table_graphs(n, "all")[::(1 if n == 5 else (12 if quick else 2))]
        for i, gid in enumerate(gids):
            base = M.run(M.local_layer_gates([(i + q) % 6 for q in range(n)]), n, B.graph_states_gens(n, gid))
            for k, dev in enumerate(deviations(base, n)):
                if quick and n == 5 and k % 2:
                    continue
                items.append((n, confs[(i + k) % len(confs)], M.gens_str(dev, n), ("matrices", "strings")[k % 2]))
        units.append(("n=%d: deviations of rotated table graph states" % n, items))
    # ---- one Stabilizer object whose matrices the caller overwrites in place between two rounds of requests
    g2 = B.sg(2)
    items = []
    for i in range(g2.N):
        a = M.gens_str(g2.gens(i, i % 4), 2)
        for code in P2:
            items.append((2, "all", M.gens_str(gens_from_code(2, code), 2), a))
    units.append(("n=2: every valid group, then in-place overwrite with each of the 256 (R,S) pairs, same object", items))
    items = []
    for i in range(g3.N):
        a = M.gens_str(g3.gens(i, i % 8), 3)
        for k, j in enumerate(((i + 1) % g3.N, (i + 37) % g3.N, (i * 7 + 3) % g3.N)):
            items.append((3, ("all", "linear")[(i + k) % 2], M.gens_str(g3.gens(j, (i + k) % 8), 3), a))
        for k, dev in enumerate(deviations(g3.gens((i + 1) % g3.N, i % 8), 3)[i % 3::(6 if quick else 1)]):
            items.append((3, ("all", "linear")[k % 2], M.gens_str(dev, 3), a))
    units.append(("n=3: every valid group, then in-place overwrite with other valid groups and deviations, same object", items))
    items = []
    confs = M.configs_for(4)
    for i in range(0, g4.N, (16 if quick else 2)):
        a = M.gens_str(g4.gens(i, i % 16), 4)
        j = (i * 5 + 1) % g4.N
        items.append((4, confs[i % 4], M.gens_str(g4.gens(j, j % 16), 4), a))
        devs = deviations(g4.gens(j, j % 16), 4)
        items.append((4, confs[(i + 1) % 4], M.gens_str(devs[i % len(devs)], 4), a))
    for n in (5, 6):
        confs_n = M.configs_for(n)
        gids = conform.table_graphs(n, "all")[::(3 if n == 5 else (40 if quick else 6))]
        prev = None
        for i, gid in enumerate(gids):
            cur = M.run(M.local_layer_gates([(i + 2 * q) % 6 for q in range(n)]), n, B.graph_states_gens(n, gid))
            if prev is not None:
                items.append((n, confs_n[i % len(confs_n)], M.gens_str(cur, n), M.gens_str(prev, n)))
            prev = cur
    units.append(("n=4,5,6: valid group, then in-place overwrite with another group or a deviation, same object", items))
    alltags = {}
    for label, items in units:
        ctx.phase("%s (%d inputs)" % (label, len(items)))
        nch = max(1, min(len(items), core.NPROC * 2))
        for cnt, nontriv, tags, fails in core.pmap(_work, [items[k::nch] for k in range(nch)]):
            ctx.count("evaluations", cnt)
            ctx.count("input_cases", cnt)
            ctx.count("distinct_nontrivial", nontriv)
            for t, c in tags.items():
                alltags[t] = alltags.get(t, 0) + c
            for m, case in sorted(fails, key=lambda t: core.canon_json(t[1])):
                ctx.violation(case, "input: n=%d %s %s %s: %s" % (case["n"], case["conn"], case.get("fmt", "in-place edit"), case["gens"], m))
        ctx.bounds.setdefault("explored", {})[label] = len(items)
    ctx.notes["outcome_classes"] = dict(sorted(alltags.items()))
    ctx.sample({"n": 2, "gens": ["+XI", "+ZI"], "valid": False, "expected": "preparation raises; readout raises or diagonalises both"})
    ctx.count("states", ctx.counters["evaluations"])
    ctx.count("transitions", ctx.counters["evaluations"])
    ctx.count("traces_validated_against_impl", ctx.counters["evaluations"])
    ctx.exhaustive = False
    ctx.rule = ("inputs enumerated as listed in bounds; non-trivial = invalid operator sets (the clause that something must be rejected or at least not wrong); "
                "outcome classes observed are listed in notes")


def replay_input(body):
    msgs, _ = judge_input(body["n"], body["conn"], M.parse_gens(body["gens"]), body["fmt"])
    return "; ".join(msgs) if msgs else None


def replay_available(body):
    from .. import impl
    avail = impl.connectivity_support.get_available_connectivities()
    return None if sorted(avail, key=str) == sorted(M.CONFIGS, key=str) and len(avail) == len(set(avail)) else repr(avail)


def replay_edit(body):
    msgs, _ = judge_edit(body["n"], body["conn"], M.parse_gens(body["before"]), M.parse_gens(body["gens"]))
    return "; ".join(msgs) if msgs else None


REPLAY = {"edit": replay_edit, "input": replay_input, "gate": lambda b: judge_gate(b["entry"], b["n"], b["name"]), "available": replay_available}
