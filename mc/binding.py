"""Shared state-graph access and the model <-> library class binding."""
import numpy as np

from . import model as M, stategraph as SG

_sg = {}


def sg(n):
    if n not in _sg:
        _sg[n] = SG.StateGraph(n)
    return _sg[n]


def rows_to_RS(rows, n):
    """uint16 RREF rows (length n) -> (R, S) int8 matrices, R[q, j] = x bit of generator j on qubit q."""
    r = np.asarray(rows, dtype=np.uint16)
    q = np.arange(n, dtype=np.uint16)[:, None]
    R = ((r[None, :] >> q) & 1).astype(np.int8)
    S = ((r[None, :] >> (q + n)) & 1).astype(np.int8)
    return R, S


def lib_stabilizer_of_rows(rows, n, signs=0):
    from . import impl
    R, S = rows_to_RS(rows, n)
    ph = np.array([(signs >> j) & 1 for j in range(n)], dtype=np.int8)
    return impl.Stabilizer((R, S, ph))


def _ids_of_first(payload):
    from . import impl
    n, idxs = payload
    g = sg(n)
    return [impl.class_id(lib_stabilizer_of_rows(g.states[i], n)) for i in idxs]


_comp_ids = {}


def component_ids(n):
    """Library class id of the first state (BFS order) of every model component."""
    if n not in _comp_ids:
        g = sg(n)
        _comp_ids[n] = _ids_of_first((n, [int(i) for i in g.first_of_component()]))
    return _comp_ids[n]


def graph_states_gens(n, gid):
    return M.graph_state_gens(n, M.graph_id_to_masks(n, gid))


def lib_graph_masks(graph):
    n = graph.num_vertices
    return [sum((int(graph.adjacency_matrix[v, w]) & 1) << w for w in range(n)) for v in range(n)]


def warm(ns=(2, 3, 4, 5, 6)):
    """Build the key->index search structures in the parent so that forked workers inherit them."""
    for n in ns:
        g = sg(n)
        g.index_of(g.key(0))
        g.first_of_component()
