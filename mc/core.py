"""Check context: counters, evidence writer, violation / known-finding reporting,
worker pool.  Used by every check (mc/checks/cXX.py) through mc/run.py."""
import hashlib
import json
import multiprocessing as mp
import os
import sys
import time

HERE = os.path.dirname(os.path.abspath(__file__))
VERIF = os.path.dirname(HERE)
EVIDENCE_DIR = os.environ.get("VERIF_EVIDENCE_DIR") or os.path.join(VERIF, "evidence")
REPLAY_DIR = os.environ.get("VERIF_REPLAY_DIR") or os.path.join(VERIF, "replay")
KNOWN_FILE = os.path.join(VERIF, "known_findings.jsonl")
MAX_VIOLATION_LINES = 20
NPROC = int(os.environ.get("VERIF_NPROC", "16"))


class HarnessError(Exception):
    """The machinery disagrees with itself (model vs. model, non-reproducible failure)."""


def canon_json(obj):
    return json.dumps(obj, sort_keys=True, separators=(",", ":"))


def load_known(prop):
    out = {}
    if os.path.exists(KNOWN_FILE):
        with open(KNOWN_FILE) as f:
            for line in f:
                line = line.strip()
                if not line:
                    continue
                rec = json.loads(line)
                if rec.get("status") == "known" and rec.get("property") == prop:
                    out[canon_json(rec["key"])] = rec
    return out


class Ctx:
    def __init__(self, prop, tier, seed):
        self.prop = prop
        self.tier = tier
        self.seed = seed
        self.t0 = time.time()
        self.counters = {}          # free-form integer counters, summed
        self.samples = []
        self.assumptions = []
        self.bounds = {}
        self.notes = {}
        self.violations = []        # (signature, case)
        self.unlisted_violations = 0   # further failures of work chunks whose first failures are listed with their call history
        self.known_hits = []
        self.known = load_known(prop)
        self.nontrivial = set()     # hashes of distinct non-trivial cases (bounded memory: ints)
        self.exhaustive = None
        self.rule = ""
        self.phase_times = {}
        self._phase = None

    # ------------------------------------------------------------ counters
    def count(self, name, k=1):
        self.counters[name] = self.counters.get(name, 0) + int(k)

    def merge(self, counters):
        for k, v in counters.items():
            self.count(k, v)

    def sample(self, obj, limit=12):
        if len(self.samples) < limit:
            self.samples.append(obj)

    def assume(self, text):
        if text not in self.assumptions:
            self.assumptions.append(text)

    def phase(self, name):
        now = time.time()
        if self._phase is not None:
            self.phase_times[self._phase[0]] = round(self.phase_times.get(self._phase[0], 0) + now - self._phase[1], 2)
        self._phase = (name, now) if name else None
        if name:
            print("[%s %s +%.0fs] %s" % (self.prop, self.tier, now - self.t0, name), flush=True)

    # ------------------------------------------------------------ reporting
    def violation(self, case, what, key=None):
        """Report a failing case.  `case` must be JSON-serialisable and contain 'kind'
        (dispatch key for mc.replay).  If `key` matches a listed known finding the
        case is reported as KNOWN-FINDING instead."""
        if key is not None:
            k = canon_json(key)
            if k in self.known:
                if k not in [h[0] for h in self.known_hits]:
                    self.known_hits.append((k, what))
                return False
        if case.get("preceding_omitted") and self.violations:
            self.unlisted_violations += 1
            return True
        self.violations.append((what, case))
        return True

    def finish(self, level="model_checking"):
        self.phase(None)
        os.makedirs(EVIDENCE_DIR, exist_ok=True)
        printed = 0
        replay_paths = []
        seen_sig = set()
        for what, case in self.violations:
            sig = (case.get("kind"), what.split(":")[0])
            if printed >= MAX_VIOLATION_LINES:
                break
            if sig in seen_sig and printed >= 5:
                continue
            seen_sig.add(sig)
            os.makedirs(REPLAY_DIR, exist_ok=True)
            body = dict(case)
            body["property"] = self.prop
            body["what"] = what
            h = hashlib.sha1(canon_json(body).encode()).hexdigest()[:12]
            path = os.path.join(REPLAY_DIR, "%s-%s.json" % (self.prop, h))
            with open(path, "w") as f:
                json.dump(body, f, indent=1, sort_keys=True)
            replay_paths.append(path)
            print("VIOLATION property=%s replay=%s" % (self.prop, path))
            print("   " + what[:300])
            printed += 1
        for k, what in self.known_hits:
            print("KNOWN-FINDING: property=%s %s" % (self.prop, what))
        cov = dict(self.counters)
        for req in ("states", "transitions", "traces_validated_against_impl"):
            cov.setdefault(req, 0)
        cov["samples"] = self.samples if self.samples else ["(no sample recorded)"]
        if "evaluations" in cov or "distinct_nontrivial" in cov:
            cov.setdefault("evaluations", 0)
            cov.setdefault("distinct_nontrivial", 0)
        if self.rule:
            cov["rule"] = self.rule
        if self.exhaustive is not None:
            cov["exhaustive"] = bool(self.exhaustive)
        cov["bounds"] = self.bounds
        cov["notes"] = self.notes
        cov["phase_seconds"] = self.phase_times
        cov["known_findings_observed"] = len(self.known_hits)
        ev = {
            "property_id": self.prop,
            "tier": self.tier,
            "seed": self.seed,
            "level": level,
            "coverage": cov,
            "assumptions": self.assumptions,
            "wall_s": round(time.time() - self.t0, 2),
            "violations": len(self.violations) + self.unlisted_violations,
        }
        with open(os.path.join(EVIDENCE_DIR, "%s.json" % self.prop), "w") as f:
            json.dump(ev, f, indent=1, sort_keys=True)
            f.write("\n")
        print("[%s %s] states=%d transitions=%d traces_validated=%d violations=%d known=%d wall=%.1fs" % (
            self.prop, self.tier, cov["states"], cov["transitions"], cov["traces_validated_against_impl"],
            len(self.violations) + self.unlisted_violations, len(self.known_hits), time.time() - self.t0))
        return replay_paths


# ---------------------------------------------------------------------------- pool

_WORK = {}


def _call(args):
    fn_name, payload = args
    return _WORK[fn_name](payload)


def pmap(fn, payloads, nproc=None):
    """Ordered parallel map over forked workers.  `fn` must be a module-level function
    (registered by name before the fork).  Deterministic: results come back in the
    order of `payloads`."""
    nproc = nproc or NPROC
    payloads = list(payloads)
    name = fn.__module__ + "." + fn.__qualname__
    _WORK[name] = fn
    if nproc <= 1 or len(payloads) <= 1:
        return [fn(p) for p in payloads]
    ctx = mp.get_context("fork")
    # maxtasksperchild=1: every payload runs in a fresh fork of the parent, so the calls a worker made for an
    # earlier payload can never influence a later one; the call history of a case is the parent's (small,
    # deterministic) prefix plus the preceding cases of its own payload -- which History records.
    with ctx.Pool(min(nproc, len(payloads)), maxtasksperchild=1) as pool:
        return pool.map(_call, [(name, p) for p in payloads], chunksize=1)


class History:
    """Records the cases a worker has executed so far in its process, so that a failure that depends on the
    preceding calls (a cache keyed too coarsely, a memo on a reused object) can be replayed with them.
    `to_case` turns a raw record into the JSON case that mc.replay understands."""

    def __init__(self, to_case=None, max_attached=2):
        self.raw = []
        self.to_case = to_case or (lambda r: r)
        self.attached = 0
        self.max_attached = max_attached

    def add(self, raw):
        self.raw.append(raw)

    def attach(self, case):
        """Return `case` with the list of preceding cases (first few failures of the chunk only).
        Call BEFORE add() of the failing case."""
        if self.attached >= self.max_attached:
            out = dict(case)
            out["preceding_omitted"] = True      # counted, but not listed: its call history was not recorded
            return out
        self.attached += 1
        out = dict(case)
        out["preceding"] = [self.to_case(r) for r in self.raw]
        return out


def chunks(total, nchunks):
    """Contiguous index ranges covering range(total)."""
    nchunks = max(1, min(nchunks, total))
    step = -(-total // nchunks)
    return [(a, min(total, a + step)) for a in range(0, total, step)]


def chunk_list(items, nchunks):
    return [items[a:b] for a, b in chunks(len(items), nchunks)]
