"""Clifford programs over the documented gate set
Sigma = {I,X,Y,Z,H,S,Sdg}_q + {CX_ab, CX_ba, CZ_ab, CZ_ba, SWAP_ab, SWAP_ba}."""
import itertools

from . import model as M

ONE_Q = ("id", "x", "y", "z", "h", "s", "sdg")


def alphabet(n, ordered_symmetric=True):
    gates = [(name, q) for name in ONE_Q for q in range(n)]
    for a in range(n):
        for b in range(n):
            if a == b:
                continue
            gates.append(("cx", a, b))
            if ordered_symmetric or a < b:
                gates.append(("cz", a, b))
                gates.append(("swap", a, b))
    return gates


def all_programs(n, maxlen):
    sigma = alphabet(n)
    out = []
    for L in range(maxlen + 1):
        for p in itertools.product(sigma, repeat=L):
            out.append(list(p))
    return out


def show(prog):
    return " ".join("%s%s" % (g[0], ",".join(str(q) for q in g[1:])) for g in prog)


def decorated_trace(g, i, sigma):
    """The BFS trace of state i of U_n (over h, s, cz) rewritten deterministically with
    the full gate set.  Every rewrite preserves the unsigned group (gates are replaced
    by equals or by equals-up-to-Paulis, and Pauli gates are inserted), and bit q of
    sigma prepends X_q, so over all sigma the programs reach every signed state of the
    group.  The oracle for a program is always the model run of that very program."""
    n = g.n
    out = [("x", q) for q in range(n) if (sigma >> q) & 1]
    if i % 5 == 0:
        out.append(("id", i % n))
    for k, gate in enumerate(g.trace(i)):
        v = (i + 3 * k) % 12
        name = gate[0]
        if name == "h":
            q = gate[1]
            out += [[("h", q)], [("h", q)], [("y", q), ("h", q)], [("h", q), ("id", q)]][v % 4]
        elif name == "s":
            q = gate[1]
            out += [[("s", q)], [("sdg", q)], [("z", q), ("sdg", q)], [("sdg", q), ("sdg", q), ("sdg", q)],
                    [("s", q), ("x", q)], [("s", q)]][v % 6]
        else:
            a, b = gate[1], gate[2]
            out += [[("cz", a, b)], [("cz", b, a)], [("h", b), ("cx", a, b), ("h", b)], [("h", a), ("cx", b, a), ("h", a)],
                    [("swap", a, b), ("cz", a, b), ("swap", b, a)], [("cz", a, b), ("z", a)],
                    [("swap", a, b), ("h", a), ("cx", b, a), ("h", a), ("swap", a, b)]][v % 7]
    return out


def redundant_insertions(prog, n):
    """Each program with one redundant pair inserted at every position."""
    out = []
    pairs = []
    for q in range(n):
        pairs += [[("h", q), ("h", q)], [("s", q), ("sdg", q)], [("x", q), ("x", q)], [("id", q)]]
    for a in range(n):
        for b in range(n):
            if a != b:
                pairs += [[("swap", a, b), ("swap", a, b)], [("cx", a, b), ("cx", a, b)]]
    for pos in range(len(prog) + 1):
        pair = pairs[(pos * 7 + len(prog)) % len(pairs)]
        out.append(prog[:pos] + pair + prog[pos:])
    return out


def clifford2_programs():
    """Breadth-first search over the Cayley graph of the two-qubit Clifford group modulo
    global phase (state: signed images of X0, X1, Z0, Z1): a shortest program per element."""
    sigma = alphabet(2)
    start = ((1, 0, 0), (2, 0, 0), (0, 1, 0), (0, 2, 0))
    seen = {start: []}
    frontier = [start]
    transitions = 0
    while frontier:
        nxt = []
        for st in frontier:
            for g in sigma:
                transitions += 1
                t = tuple(M.conj(p, g) for p in st)
                if t not in seen:
                    seen[t] = seen[st] + [g]
                    nxt.append(t)
        frontier = nxt
    return seen, transitions


def full_alphabet_bfs(n):
    """BFS over SIGNED stabilizer states with the full gate set: a shortest program per signed state."""
    sigma = alphabet(n, ordered_symmetric=False)
    start = M.canon(M.zero_state(n), n)
    seen = {start: []}
    frontier = [start]
    transitions = 0
    while frontier:
        nxt = []
        for st in frontier:
            gens = [M.herm(*r) for r in st]
            for g in sigma:
                transitions += 1
                t = M.canon([M.conj(p, g) for p in gens], n)
                if t not in seen:
                    seen[t] = seen[st] + [g]
                    nxt.append(t)
        frontier = nxt
    return seen, transitions
