"""Generates /verif/MANIFEST.json from the per-check metadata below.
Run:  /venv/bin/python -m mc.manifest   (validates against the schema if jsonschema is available)."""
import json
import os

from . import core

BASELINE_CMD = ("cd /repo && /venv/bin/python -m pytest -ra -q -p no:cacheprovider --timeout=900 "
                "--continue-on-collection-errors")

CHECKS = {
    "C17": {
        "engine": "tablescan+stategraph",
        "technique": "exhaustive enumeration of all table entries, each executed in the reference stabilizer model "
                     "and located in the explicit LC-component partition of the full state graph",
        "text": "Every line of every stabilizer table file in the working tree (6722 entries incl. the stray file) is "
                "parsed by an independent strict parser, simulated in the verifier's own signed-tableau model, its graph "
                "located in the explicitly enumerated local-Clifford component partition of all stabilizer states, and "
                "compared with the library's parser, classifier and lookup API. Complete over the finite domain.",
        "note": "Trusted: numpy matrix products and eight textbook gate matrices (gate rules are re-derived from them on "
                "every run); the C state-graph enumerator is cross-checked against the Python model by C05/C06.",
        "design_ref": "5 (C17)",
    },
}

CHECKS["C05"] = {
    "engine": "stategraph",
    "technique": "explicit-state shortest-path search over the complete stabilizer state graph (all states, n<=6) and its LC-class quotient; witness traces replayed through the implementation",
    "text": "The universally quantified competitor circuits are decided exactly: the minimum two-qubit count for (n, connectivity, class) is the "
            "0/1-weighted shortest-path distance from |0..0> in the explicitly enumerated graph of ALL stabilizer states (15..4922775 states, "
            "local gates free, CZ on coupled pairs cost 1), computed on the full graph and again by BFS on the class quotient. It is compared with the "
            "two-qubit count of the circuits the three APIs actually deliver for the witness' end state, for all 5962 (configuration, class) pairs, and for every graph state given in graph form (all graphs n<=5, residue classes of graph ids for n=6). "
            "Each optimum comes with a witness circuit that is re-simulated, edge-checked and pushed through Stabilizer(circuit) and the library classifier.",
    "note": "Trusted: the gate rules (re-derived from matrices each run), the C enumerator (cross-checked state-for-state against the Python model on n<=5 and a residue class of n=6; "
            "rebuilt and compared with scipy components in the thorough tier). Assumes CX/CZ/SWAP(=3) are the only two-qubit gates, as the property states. "
            "570 six-qubit table entries are genuinely suboptimal and are listed in known_findings.jsonl.",
    "design_ref": "5 (C05), 6",
}
CHECKS["C06"] = {
    "engine": "stategraph+conform",
    "technique": "explicit enumeration of all stabilizer groups; connected components of the state graph under single-qubit gates as oracle; classifier run on every state",
    "text": "The partition of stabilizer groups induced by the library's class id is compared with the partition into connected components of the explicitly "
            "enumerated state graph under H_q,S_q (local-Clifford equivalence by definition): constant on components, injective across, ids exactly 0..K-1. "
            "Quick: all groups for n<=5, and for n=6 all 32768 graph states + 256 members of each of the 760 components + the residue class R16 (about 520k states); "
            "thorough: ALL 4922775 six-qubit groups. Presentations (all generating sets n<=3; one-move neighbourhood and dense 'star'/cumulative presentations beyond) and sign vectors are varied; "
            "every class object is put through all sequences of three queries (id, get_graph, str, ==) and compared with a fresh object.",
    "note": "Trusted: gate rules (checked against matrices), C enumerator (cross-checked against the Python model; components recomputed with scipy in thorough).",
    "design_ref": "5 (C06)",
}

_E2_NOTE = ("Trusted: gate rules (re-derived from matrices each run), C enumerator cross-checked against the Python model. "
            "Observation = instruction list of the returned QuantumCircuit interpreted by the model; Qiskit simulators are not used as oracle. "
            "Bounded where stated: n<=4 complete over groups (signs/presentations per tier), n=5 complete over groups in thorough, n=6 bounded families "
            "(table graph states, local balls B6(r), all graph states, residue class R16 of the BFS order).")
CHECKS["C01"] = {
    "engine": "stategraph+conform",
    "technique": "explicit enumeration of the stabilizer state space (BFS over all groups x signs x presentations x formats); real API run on every enumerated state; result executed in the reference tableau model",
    "text": "Every enumerated signed stabilizer state (all groups and all sign vectors for n<=3, all groups for n=4, all 75735 groups for n=5 in thorough, bounded "
            "families incl. local balls around every table entry and a 1/16 residue class of all 4.9M groups for n=6) is handed to get_preparation_circuit "
            "in several generator presentations and input formats on every connectivity; the returned instruction list is executed by the verifier's "
            "signed-tableau model from |0..0> and the signed RREF must equal that of the request.",
    "note": _E2_NOTE, "design_ref": "5 (C01)",
}
CHECKS["C02"] = {
    "engine": "tablescan+conform",
    "technique": "exhaustive scan of every shipped circuit text and every coupling graph against an independently transcribed edge table; enumeration of delivered circuits over model states and over ordered measured-qubit lists",
    "text": "All 20 coupling graphs, all 6686 circuit texts of the 40 tables and all MUB circuits returned by the API are compared with an edge table transcribed from the "
            "property statement. Preparation, readout and compressed circuits are inspected for the enumerated model states (same state space as C01, thinned in quick), "
            "and the readout part of tomography / stabilizer-measurement circuits for every ordered m-subset of N qubits ((m,N) up to (3,5) complete, families beyond, N<=8).",
    "note": _E2_NOTE, "design_ref": "5 (C02)",
}
CHECKS["C03"] = {
    "engine": "stategraph+conform",
    "technique": "explicit enumeration of stabilizer states; every one of the 2^n group elements conjugated through the returned readout circuit in the reference model",
    "text": "For every enumerated state (same state space as C01) get_readout_circuit is called; all 2^n group elements, expanded by the model, are conjugated through the "
            "returned instruction list and must end as distinct Z-strings; the circuit must be identical for the same generators with other signs, and its inverse "
            "must prepare the group up to signs.",
    "note": _E2_NOTE, "design_ref": "5 (C03)",
}
CHECKS["C04"] = {
    "engine": "stategraph+conform",
    "technique": "explicit enumeration of stabilizer states grouped by connected component of the state graph; cost/depth observations compared per component and with table metadata; full table scan",
    "text": "Two-qubit count (swap=3) and ASAP two-qubit depth of the preparation, readout and compressed circuits are measured for every enumerated state and must equal "
            "the lookup metadata of the state's class; observations are grouped by (configuration, model component) and must be constant on each component. "
            "All table entries: recorded cost/depth equal the recomputed values.",
    "note": _E2_NOTE, "design_ref": "5 (C04)",
}

_SS_NOTE = ("Trusted: the brute-force oracle written for this check and the reference model (gate rules re-derived from matrices). "
            "Depth-1 input space: states = enumerated inputs, transitions = routine invocations.")
CHECKS["C09"] = {
    "engine": "tablescan+model",
    "technique": "exhaustive enumeration of all 20 configurations x all 2^n+1 bases x all 2^n group elements, each conjugated through its circuit in the reference model",
    "text": "Complete over the finite domain: counts, validity of every basis, exact-once coverage of all 4^n-1 Paulis, index alignment (circuit i diagonalises "
            "every element of basis i), info numbers recomputed from the returned circuits, cost <= the library's own readout circuit, agreement of the three getters with the file.",
    "note": _SS_NOTE, "design_ref": "5 (C09)",
}
CHECKS["C14"] = {
    "engine": "smallscope+stategraph",
    "technique": "exhaustive enumeration of signed generator lists (all for n<=2/3), all graphs, and Clifford programs (all programs to depth 3 at n=2, BFS trace program of every signed state n<=4) executed by the reference model",
    "text": "strings->object->strings, mirror export and R/S/phase bits for ALL signed string lists (n=2; n=3 complete in thorough, a residue class in quick) and every signed Pauli in "
            "every row for n=4..6; matrix formats vs string format; all 33866 graphs; circuit format: every program of length<=3 over the full gate set (n=2) and a full-alphabet "
            "trace program for every signed stabilizer state of n<=4 (n=5: every group), each compared as a signed group with the model run of the same program.",
    "note": _SS_NOTE, "design_ref": "5 (C14), 4 link 3",
}
CHECKS["C15"] = {
    "engine": "smallscope+stategraph",
    "technique": "exhaustive enumeration of stabilizer groups and pairs of groups from the explicit state graph, predicates compared with canonical forms / span enumeration",
    "text": "is_equivalent_mod_phase on all ordered pairs of groups for n=2,3 (all generating sets in thorough) and n=4 (all pairs in thorough; landmarks in quick), and on table states vs all "
            "their gate neighbours for n=4..6; expand() and is_qubit_entangled() for all groups n<=4 (n=5,6 complete in thorough) under re-presentation, against span enumeration "
            "and the weight-one-element criterion.",
    "note": _SS_NOTE, "design_ref": "5 (C15)",
}
CHECKS["C16"] = {
    "engine": "smallscope+stategraph",
    "technique": "exhaustive enumeration of (operator set, graph) pairs; existence decided by state-graph components (full stabilizers) or brute force over all 6^n layers (any other set)",
    "text": "All ordered sets of <=2 Paulis x all graphs for n=2,3 (all triples at n=3 in thorough), all 2295 groups x graphs at n=4, groups x table graphs at n=5, rotated table states at n=6. "
            "Existence oracle: same LC component (by definition) or brute force; returned layers must be genuine Clifford blocks, map all operators into the graph group, and the generated "
            "gate sequence must act on X_q, Z_q exactly as the blocks say; the converter is fed all 16 block values.",
    "note": _SS_NOTE, "design_ref": "5 (C16)",
}
CHECKS["C18"] = {
    "engine": "smallscope",
    "technique": "exhaustive enumeration of all binary matrices of every shape with m*n<=14 (quick) / 18 (thorough) against brute-force span and kernel enumeration; differential check on the real shapes",
    "text": "Every binary matrix of every shape m x n with m*n <= bound (119k / 2M matrices), the zero-dimension shapes and every matrix the layer search actually builds (up to 36x24) go through "
            "rref, rank, rref_and_basis_change and null_space; results are compared with an independent bit-packed elimination that is itself checked against span enumeration.",
    "note": _SS_NOTE, "design_ref": "5 (C18)",
}
CHECKS["C19"] = {
    "engine": "smallscope+stategraph",
    "technique": "exhaustive enumeration of all graphs on 2..6 vertices x all vertices, all class ids and all grouping indices against independent bitmask implementations and the state-graph components",
    "text": "Complete: compress/decompress bijection and bit positions for all 33866 graphs, local complementation (exact edge set, involution, simplicity, class preserved in the model's "
            "component partition and by the library id) at every vertex, every class id through LCClassN and back, and all 15 grouping index families (valid partition, injective, round trip, count = number of structures).",
    "note": _SS_NOTE, "design_ref": "5 (C19)",
}

CHECKS["C07"] = {
    "engine": "stategraph+conform",
    "technique": "explicit-state search over Clifford programs: BFS over the Cayley graph of the two-qubit Clifford group (11520 elements), BFS over all signed 3-qubit states with the full gate set, all programs to depth 3, trace programs of all signed states n<=4; each run through compress and re-executed in the reference model",
    "text": "One shortest program per two-qubit Clifford unitary, every program over the 20-gate alphabet up to length 3 (n=2) / 2 (n=3), a full-alphabet shortest program for every signed 3-qubit "
            "state extended by every gate, rewritten BFS traces of signed states for n<=6, redundant-pair insertions at every position and long repetitions: output state equals input state "
            "(signed), gates on coupled pairs, cost equals the class cost, and the input QuantumCircuit is bit-identical before and after.",
    "note": _E2_NOTE + " Unbounded program length is covered only through the listed long programs.", "design_ref": "5 (C07)",
}
CHECKS["C08"] = {
    "engine": "smallscope+conform",
    "technique": "exhaustive enumeration of all X/Z matrix pairs for n=2 and n=3 (complete in thorough, a residue class in quick), one-deviation neighbourhoods of valid groups for n=3..6, and the full grid entry point x qubit count 0..8 x 17 names",
    "text": "Validity is decided by the model (pairwise symplectic products, span); validate() must agree on every input; preparation must raise on every invalid input and be correct on every valid "
            "one; readout must raise or diagonalise every given operator. Every public entry point is probed on every (n, name) of a 9 x 17 grid: served iff one of the 20 advertised pairs.",
    "note": _SS_NOTE, "design_ref": "5 (C08)",
}
_TOMO_NOTE = ("Trusted: the reference model, a 40-line dense simulator for the non-stabilizer probes, and the linearity reduction written out in DESIGN.md section 5 (C10): exactness for all density "
              "matrices follows from the operator identity per (circuit, pattern) on the DELIVERED instruction lists plus the estimator being the stated linear functional on distributions, "
              "both enumerated completely. Exact statistics are fed through a duck-typed get_counts() object with Qiskit's little-endian keys.")
CHECKS["C10"] = {
    "engine": "tomo",
    "technique": "exhaustive enumeration of (configuration, circuit, pattern, point-mass outcome) for all 20 configurations, plus every signed stabilizer state of n<=3 (n=4 in thorough) end to end with exact affine-subspace statistics",
    "text": "For every configuration the fitter is evaluated on the point mass of every outcome (n=6: 9 outcomes in quick, all 64 in thorough) and every reported (Pauli, value) pair is compared with "
            "s*(-1)^(a.b) derived by conjugating through the delivered circuits in the model; keys must be exactly the 4^n Paulis. End to end: all 60/1080 signed stabilizer states (which span operator "
            "space) with exact integer statistics, density matrix against the projector; non-stabilizer probes through a dense simulator.",
    "note": _TOMO_NOTE, "design_ref": "5 (C10)",
}
CHECKS["C11"] = {
    "engine": "tomo",
    "technique": "exhaustive enumeration of ordered measured-qubit lists x all 2^N full-register point-mass outcomes x both fitters x both key modes; all signed stabilizer states of a 3-qubit register end to end",
    "text": "All ordered m-subsets of N qubits for (m,N) in {(2,3),(2,4),(3,4),(3,5)} and list families up to N=8, each with the point mass on every full-register outcome, decide the marginalisation "
            "and key embedding exactly; every signed 3-qubit stabilizer state x ordered pairs/permutations end to end, reduced density matrix against the model, in full-register and reduced modes.",
    "note": _TOMO_NOTE, "design_ref": "5 (C11)",
}
CHECKS["C12"] = {
    "engine": "tomo+stategraph",
    "technique": "exhaustive enumeration of measured stabilizer groups (all groups x all signs x presentations for n<=3, all groups n=4 in thorough) x point-mass outcomes; all 60x60 (group, state) pairs at n=2 end to end",
    "text": "Keys must be exactly the 2^n unsigned elements of the measured group (model expansion) with identity -> 1; values on every point mass must equal the sign/parity derived from the delivered "
            "circuit; end to end every signed measured group against every signed stabilizer state for n=2, and 135 groups x a rotating subset of the 1080 states for n=3, against Tr(rho P).",
    "note": _TOMO_NOTE, "design_ref": "5 (C12)",
}
CHECKS["C13"] = {
    "engine": "histmc",
    "technique": "explicit-state breadth-first search over call/mutation histories (61-event alphabet, depth 3 quick / 4 thorough), canonical-state deduplication, every call compared with a fresh-interpreter oracle",
    "text": "Events: 29 public API calls on a tiny argument domain (incl. fitters and the same state on two restricted connectivities), 9 calls on a caller-held Stabilizer that is reused and mutated in place "
            "between calls (3 of them requests that must be rejected), 5 calls on held class / table-record / graph objects, 7 adversarial mutations of the most recent result and of the most recent arguments, "
            "3 in-place changes of the held stabilizer, and clearing the caches. Every history is "
            "replayed on a freshly imported library; states are deduplicated on a value fingerprint of all module/class-level mutable package objects plus the aliasing of caller-held objects. "
            "Invariants on every transition: result equals a fresh interpreter's (three hash seeds agree), arguments unchanged, replay deterministic.",
    "note": "Trusted: the canonical-state abstraction (sound if the package keeps no cross-call memory outside module/class attributes), the serialiser. Bounded: depth and argument domain as stated.",
    "design_ref": "5 (C13)",
}

NOT_YET = "check not built yet (work in progress in this session; planned as model checking, see DESIGN.md section 5)"


def build():
    props = []
    with open(os.path.join(core.VERIF, "properties.jsonl")) as f:
        for line in f:
            if line.strip():
                props.append(json.loads(line)["id"])
    checks = []
    na = []
    for pid in props:
        meta = CHECKS.get(pid)
        have = os.path.exists(os.path.join(core.HERE, "checks", pid.lower() + ".py"))
        if not meta or not have:
            na.append({"property_id": pid, "reason": NOT_YET})
            continue
        checks.append({
            "property_id": pid,
            "quick_cmd": "/venv/bin/python -m mc.run %s --tier quick" % pid,
            "thorough_cmd": "/venv/bin/python -m mc.run %s --tier thorough" % pid,
            "evidence_file": "/verif/evidence/%s.json" % pid,
            "replay_cmd_template": "/venv/bin/python -m mc.replay {path}",
            "engine": meta["engine"],
            "level_claimed": {"category": meta.get("category", "model_checking"), "text": meta["text"],
                              "design_ref": "DESIGN.md section " + meta["design_ref"]},
            "level_note": meta["note"],
            "technique": meta["technique"],
        })
    man = {
        "version": 1,
        "setup_cmd": "cd /verif && /venv/bin/python -m mc.setup",
        "hooks": {
            "guard": "HTSTABILIZER_VERIF",
            "enable": "no hooks are needed: every observation point is a public return value; the guard name is reserved and unused",
            "baseline_off_cmd": BASELINE_CMD,
            "source_commits": [],
            "add_only": True,
        },
        "engines": [
            {"name": "stategraph", "path": "mc/stategraph.py", "serves_properties": ["C01", "C03", "C04", "C05", "C06", "C07", "C12", "C15", "C16", "C17", "C19"],
             "kind_free_text": "explicit-state BFS over all unsigned stabilizer states (C helper mc/stabgraph.c + Python model mc/model.py), LC components, class quotient, 0/1 shortest paths, witness traces"},
            {"name": "conform", "path": "mc/conform.py", "serves_properties": ["C01", "C02", "C03", "C04", "C07", "C08", "C12"],
             "kind_free_text": "runs the real API on every enumerated model state and interprets returned instruction lists in the model"},
            {"name": "histmc", "path": "mc/histmc.py", "serves_properties": ["C13"],
             "kind_free_text": "explicit-state BFS over call/mutation histories against a fresh-interpreter oracle"},
            {"name": "smallscope", "path": "mc/checks", "serves_properties": ["C08", "C14", "C16", "C18", "C19"],
             "kind_free_text": "complete enumeration of small input spaces with brute-force oracles"},
            {"name": "tomo", "path": "mc/tomo.py", "serves_properties": ["C10", "C11", "C12"],
             "kind_free_text": "exact-statistics harness: model-computed outcome distributions fed to the fitters"},
        ],
        "checks": checks,
        "not_applicable": na,
        "notes": "All checks: python -m mc.run Cxx --tier quick|thorough from /verif; replay with python -m mc.replay <file>. "
                 "Known findings are listed in known_findings.jsonl. See DESIGN.md.",
    }
    return man


def main():
    man = build()
    path = os.path.join(core.VERIF, "MANIFEST.json")
    with open(path, "w") as f:
        json.dump(man, f, indent=1)
        f.write("\n")
    try:
        import jsonschema
        with open("/root/.vp/MANIFEST.schema.json") as f:
            jsonschema.validate(man, json.load(f))
        print("MANIFEST.json valid;", len(man["checks"]), "checks,", len(man["not_applicable"]), "not applicable")
    except ImportError:
        print("MANIFEST.json written (jsonschema not available in this interpreter)")


if __name__ == "__main__":
    main()
