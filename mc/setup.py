"""setup_cmd: compile the C helper and build the model artefacts (independent of /repo)."""
import sys
import time
from . import stategraph as SG, selftest


def main():
    t = time.time()
    print("self-test identities:", selftest.gate_rules_vs_matrices())
    SG.compile_helper(force=True)
    res = SG.build_all()
    for n, meta in sorted(res.items()):
        print("n=%d states=%d gates=%d depth=%d classes=%d" % ((n,) + meta))
    print("setup done in %.1fs" % (time.time() - t))


if __name__ == "__main__":
    sys.exit(main())
