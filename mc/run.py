"""Check runner:  /venv/bin/python -m mc.run Cxx --tier quick|thorough

Exit status 0: the property held on everything explored (KNOWN-FINDING lines may
be printed); 1: at least one VIOLATION line; 3: HARNESS-ERROR (the machinery is
inconsistent with itself -- never reported as a violation).
"""
import argparse
import importlib
import json
import os
import subprocess
import sys
import traceback

from . import core


def reproduce(prop, paths):
    """Re-run each reported case in a fresh interpreter (alone, and - if it was recorded with the calls that
    preceded it - after those calls).  A failure that cannot be reproduced is a defect of the machinery."""
    nhist = 0
    for path in paths:
        r = subprocess.run([sys.executable, "-m", "mc.replay", path] + (["--no-shrink"] if nhist >= 2 else []), cwd=core.VERIF,
                           capture_output=True, text=True)
        nhist += "history-dependent" in r.stdout
        if r.returncode != 1:
            raise core.HarnessError("violation %s does not reproduce in a fresh interpreter (exit %d): %s"
                                    % (path, r.returncode, (r.stdout + r.stderr)[-500:]))
        if "history-dependent" in r.stdout:
            print("   note: %s is history-dependent (see replay output)" % os.path.basename(path))


def main(argv=None):
    ap = argparse.ArgumentParser()
    ap.add_argument("prop")
    ap.add_argument("--tier", default=os.environ.get("VERIF_TIER", "quick"), choices=["quick", "thorough"])
    args = ap.parse_args(argv)
    seed = int(os.environ.get("VERIF_SEED", "0") or 0)
    os.environ.setdefault("PYTHONHASHSEED", "0")
    prop = args.prop.upper()
    ctx = core.Ctx(prop, args.tier, seed)
    mod = importlib.import_module("mc.checks.%s" % prop.lower())
    try:
        mod.check(ctx)
        paths = ctx.finish(level=getattr(mod, "LEVEL", "model_checking"))
        if paths:
            # the VIOLATION lines are already printed; make sure they are real
            reproduce(prop, paths)
    except core.HarnessError as e:
        print("HARNESS-ERROR property=%s %s" % (prop, e))
        return 3
    except Exception:
        traceback.print_exc()
        print("HARNESS-ERROR property=%s unexpected exception in the checker" % prop)
        return 3
    return 1 if ctx.violations else 0


if __name__ == "__main__":
    sys.exit(main())
