"""E3: explicit-state search over call / mutation histories (property C13).

State of the system   = (value fingerprint of every module- and class-level mutable object of
                         the htstabilizer package, found by walking the package;
                         which parts of the caller-held objects alias that state;
                         value fingerprint of the caller-held objects)
Events                = public API calls on a tiny argument domain, adversarial caller-side
                         mutations of the most recent result / the most recent arguments,
                         clearing the lookup caches
Invariants            = I1 every call's result equals what a FRESH INTERPRETER returns for the
                         same argument values (three reference processes with different hash
                         seeds must agree);  I2 a call leaves its arguments unchanged;
                         I3 replaying a history twice gives identical observations.
Each history is replayed on a fresh instance of the library (all htstabilizer modules purged
from sys.modules and re-imported)."""
import importlib
import json
import os
import subprocess
import sys
import types

import numpy as np

from . import core

import re
_PID_NAME = re.compile(r"(circuit-\d+)-\d+")
REPO_SRC = os.path.join(os.environ.get("VERIF_REPO", "/repo"), "src")
PKG = "htstabilizer"


# ------------------------------------------------------------------------------ fresh library

def fresh_library():
    for name in [k for k in sys.modules if k == PKG or k.startswith(PKG + ".")]:
        del sys.modules[name]
    if REPO_SRC not in sys.path:
        sys.path.insert(0, REPO_SRC)
    import warnings
    warnings.filterwarnings("ignore")
    # own the one process-global counter of Qiskit that can leak into library state (auto-generated circuit names)
    try:
        from qiskit import QuantumCircuit
        QuantumCircuit.instances = 0
    except Exception:      # noqa: BLE001
        pass
    mods = {}
    for sub in ("stabilizer", "graph", "stabilizer_circuits", "circuit_lookup", "lc_classes", "connectivity_support",
                "mub_circuits", "tomography", "find_local_clifford_layer", "f2_algebra", "linear_index",
                "rotate_stabilizer_into_state"):
        mods[sub] = importlib.import_module(PKG + "." + sub)
    assert os.path.realpath(mods["stabilizer"].__file__).startswith(os.path.realpath(REPO_SRC))
    return types.SimpleNamespace(**mods)


# ------------------------------------------------------------------------------ serialisation

def is_pkg_obj(o):
    return (type(o).__module__ or "").startswith(PKG)


def ser(o, depth=0):
    """Canonical JSON-able value of a result / argument / piece of global state."""
    if depth > 12:
        return "<deep>"
    if isinstance(o, str):
        # Qiskit appends the PID to auto-generated circuit names inside multiprocessing children; the PID is
        # not part of the library's behaviour, so it is removed from fingerprints (the counter part is owned:
        # fresh_library() resets it)
        return _PID_NAME.sub(r"\1", o) if "circuit-" in o else o
    if o is None or isinstance(o, (bool, int)):
        return o
    if isinstance(o, float):
        return repr(o)
    if isinstance(o, complex):
        return [repr(o.real), repr(o.imag)]
    if isinstance(o, np.generic):
        return ser(o.item(), depth + 1)
    if isinstance(o, np.ndarray):
        return {"nd": [o.dtype.kind, list(o.shape), o.tolist()]}
    if isinstance(o, (list, tuple)):
        return [ser(x, depth + 1) for x in o]
    if isinstance(o, (set, frozenset)):
        return {"set": sorted(json.dumps(ser(x, depth + 1), sort_keys=True) for x in o)}
    if isinstance(o, dict):
        return {"dict": sorted(([json.dumps(ser(k, depth + 1), sort_keys=True), ser(v, depth + 1)] for k, v in o.items()), key=lambda t: t[0])}
    tn = type(o).__name__
    if tn == "QuantumCircuit":
        ops = []
        for inst in o.data:
            ops.append([inst.operation.name, [o.find_bit(q).index for q in inst.qubits], [o.find_bit(c).index for c in inst.clbits],
                        [repr(p) for p in getattr(inst.operation, "params", [])]])
        return {"qc": [o.num_qubits, o.num_clbits, ops, ser(o.metadata, depth + 1), repr(complex(o.global_phase)) if not hasattr(o.global_phase, "parameters") else "param"]}
    if tn == "Pauli":
        return {"pauli": str(o)}
    if isinstance(o, BaseException):
        return {"raised": type(o).__name__}
    if isinstance(o, (types.FunctionType, types.BuiltinFunctionType, types.MethodType, type, types.ModuleType)):
        return "<%s>" % tn
    if hasattr(o, "value") and hasattr(o, "name") and type(o).__mro__[1].__name__ in ("IntEnum", "Enum"):
        return {"enum": [tn, o.name]}
    fields = {}
    if hasattr(o, "__dict__"):
        fields.update(vars(o))
    for slot in getattr(type(o), "__slots__", ()) or ():
        if isinstance(slot, str) and hasattr(o, slot):
            fields[slot] = getattr(o, slot)
    if is_pkg_obj(o) or fields:
        return {"obj": [tn, {k: ser(v, depth + 1) for k, v in sorted(fields.items()) if not k.startswith("__")}]}
    return "<%s>" % tn


def canon_addresses(j, table=None):
    """Heap canonicalisation: integers of address size (>= 2**40; nothing in this library's value domain is that
    large -- graph codes, class ids, counts and bit masks stay below 2**20) can only be id()s of objects, which
    differ from run to run and carry no meaning beyond identity.  They are renamed by order of first appearance
    in the (deterministically ordered) ser() tree, which keeps the equality pattern between them and makes the
    fingerprint of a state that remembers an id() reproducible."""
    if table is None:
        table = {}
    if isinstance(j, bool):
        return j
    if isinstance(j, int):
        if abs(j) >= 1 << 40:
            return {"addr": table.setdefault(j, len(table))}
        return j
    if isinstance(j, list):
        return [canon_addresses(v, table) for v in j]
    if isinstance(j, dict):
        return {k: canon_addresses(v, table) for k, v in sorted(j.items())}
    return j


def sers(o):
    return json.dumps(canon_addresses(ser(o)), sort_keys=True)


def strip_private(j):
    """Drop attributes whose name starts with '_' from a ser() value (hidden caches are not part of an argument's value)."""
    if isinstance(j, dict):
        if "obj" in j and isinstance(j["obj"], list) and len(j["obj"]) == 2 and isinstance(j["obj"][1], dict):
            return {"obj": [j["obj"][0], {k: strip_private(v) for k, v in j["obj"][1].items() if not k.startswith("_")}]}
        return {k: strip_private(v) for k, v in j.items()}
    if isinstance(j, list):
        return [strip_private(v) for v in j]
    return j


def value_sers(o):
    return json.dumps(strip_private(ser(o)), sort_keys=True)


# ------------------------------------------------------------------------------ global state of the package

def global_objects():
    """(path, object) for every module-level and class-level attribute of the package that is
    not a module, function, class, or immutable primitive -- found by walking, not by a list."""
    out = []
    for mname in sorted(k for k in sys.modules if k == PKG or k.startswith(PKG + ".")):
        mod = sys.modules[mname]
        if mod is None:
            continue
        for aname, val in sorted(vars(mod).items()):
            if aname.startswith("__"):
                continue
            if isinstance(val, type):
                if (val.__module__ or "").startswith(PKG):
                    for cname, cval in sorted(vars(val).items()):
                        if cname.startswith("__") or isinstance(cval, (types.FunctionType, classmethod, staticmethod, property, type)):
                            continue
                        if isinstance(cval, (list, dict, set, np.ndarray)):
                            out.append(("%s.%s.%s" % (mname, aname, cname), cval))
                continue
            if isinstance(val, (types.ModuleType, types.FunctionType, types.BuiltinFunctionType, bool, int, float, str, bytes, type(None), tuple)):
                continue
            if (getattr(type(val), "__module__", "") or "").startswith("typing"):
                continue
            out.append(("%s.%s" % (mname, aname), val))
    return out


def global_fingerprint():
    return json.dumps([[p, ser(o)] for p, o in global_objects()], sort_keys=True)


def reachable_ids(roots, limit=200000):
    """ids of mutable objects reachable from roots by following container elements and instance attributes."""
    seen = {}
    stack = list(roots)
    while stack and len(seen) < limit:
        o = stack.pop()
        if o is None or isinstance(o, (bool, int, float, str, bytes, complex, type, types.ModuleType, types.FunctionType, types.BuiltinFunctionType)):
            continue
        if id(o) in seen:
            continue
        seen[id(o)] = o
        if isinstance(o, (list, tuple, set, frozenset)):
            stack.extend(o)
        elif isinstance(o, dict):
            stack.extend(o.values())
        elif isinstance(o, np.ndarray):
            if o.base is not None:
                stack.append(o.base)
        elif type(o).__name__ == "QuantumCircuit":
            d = getattr(o, "_data", None)
            if d is not None:
                seen[id(d)] = d
            if isinstance(o.metadata, dict):
                stack.append(o.metadata)
            continue
        else:
            if hasattr(o, "__dict__"):
                stack.extend(vars(o).values())
            for slot in getattr(type(o), "__slots__", ()) or ():
                if isinstance(slot, str) and hasattr(o, slot):
                    stack.append(getattr(o, slot))
    return seen


def alias_signature(held, extra_roots=()):
    """Paths inside the caller-held objects that are (by identity) part of the package's global state
    (or of the extra roots, e.g. the caller-held argument object that later calls will see again)."""
    gids = reachable_ids([o for _, o in global_objects()] + list(extra_roots))
    sig = []

    def walk(o, path, depth):
        if depth > 8 or o is None or isinstance(o, (bool, int, float, str, bytes, complex)):
            return
        if id(o) in gids:
            sig.append(path)
            return
        if isinstance(o, (list, tuple)):
            for k, x in enumerate(o):
                walk(x, path + "[%d]" % k, depth + 1)
        elif isinstance(o, dict):
            for k, x in o.items():
                walk(x, path + "{%r}" % (k,), depth + 1)
        elif isinstance(o, np.ndarray):
            if o.base is not None and id(o.base) in gids:
                sig.append(path + ".base")
        elif type(o).__name__ == "QuantumCircuit":
            d = getattr(o, "_data", None)
            if d is not None and id(d) in gids:
                sig.append(path + "._data")
            if isinstance(o.metadata, dict):
                walk(o.metadata, path + ".metadata", depth + 1)
            return
        else:
            if hasattr(o, "__dict__"):
                for k, x in vars(o).items():
                    walk(x, path + "." + k, depth + 1)
            for slot in getattr(type(o), "__slots__", ()) or ():
                if isinstance(slot, str) and hasattr(o, slot):
                    walk(getattr(o, slot), path + "." + slot, depth + 1)
    for name, o in held:
        walk(o, name, 0)
    return sorted(sig)


# ------------------------------------------------------------------------------ alphabet: calls

def _bell(lib):
    from qiskit import QuantumCircuit
    qc = QuantumCircuit(2)
    qc.h(0)
    qc.cx(0, 1)
    return qc


def _chain3(lib):
    from qiskit import QuantumCircuit
    qc = QuantumCircuit(3)
    qc.h(0), qc.h(1), qc.h(2)
    qc.cz(0, 1), qc.cz(1, 2)
    qc.s(2)
    return qc


def _chain3_meta(lib):
    """The same preparation circuit as it comes out of a user's pipeline: named, with non-empty metadata."""
    qc = _chain3(lib)
    qc.name = "user-prep"
    qc.metadata = {"experiment": "chain", "tags": [1, 2]}
    return qc


def _rs3():
    R = np.array([[1, 0, 0], [0, 1, 0], [0, 0, 1]], dtype=np.int8)
    S = np.array([[0, 1, 0], [1, 0, 1], [0, 1, 0]], dtype=np.int8)
    return R, S


# name -> (make_args(lib) -> tuple of argument objects, call(lib, *args) -> result)
CALLS = {
    "prepA": (lambda lib: (lib.stabilizer.Stabilizer(["XX", "-ZZ"]), "all"),
              lambda lib, s, c: lib.stabilizer_circuits.get_preparation_circuit(s, c)),
    "prepB": (lambda lib: (lib.stabilizer.Stabilizer(lib.graph.Graph.linear(3)), "linear"),
              lambda lib, s, c: lib.stabilizer_circuits.get_preparation_circuit(s, c)),
    "readoutB": (lambda lib: (lib.stabilizer.Stabilizer(["XZI", "-ZXZ", "IZX"]), "linear"),
                 lambda lib, s, c: lib.stabilizer_circuits.get_readout_circuit(s, c)),
    "compressB": (lambda lib: (_chain3(lib), "linear"),
                  lambda lib, q, c: lib.stabilizer_circuits.compress_preparation_circuit(q, c)),
    "mub_circuitsA": (lambda lib: (2, "all"), lambda lib, n, c: lib.mub_circuits.get_mub_circuits(n, c)),
    "mubsA": (lambda lib: (2, "all"), lambda lib, n, c: lib.mub_circuits.get_mubs(n, c)),
    "mub_infoA": (lambda lib: (2, "all"), lambda lib, n, c: lib.mub_circuits.get_mub_info(n, c)),
    "mubsB": (lambda lib: (3, "linear"), lambda lib, n, c: lib.mub_circuits.get_mubs(n, c)),
    "lookupB": (lambda lib: (3, "linear", 2), lambda lib, n, c, i: lib.circuit_lookup.stabilizer_circuit_lookup(n, c, i)),
    "lookupB_parse": (lambda lib: (3, "linear", 4), lambda lib, n, c, i: lib.circuit_lookup.stabilizer_circuit_lookup(n, c, i).parse_circuit()),
    "mub_lookupA": (lambda lib: (2, "all"), lambda lib, n, c: lib.circuit_lookup.mub_circuit_lookup(n, c)),
    "tomoA": (lambda lib: (_bell(lib), "all"), lambda lib, q, c: lib.tomography.full_state_tomography_circuits(q, c)),
    "measB": (lambda lib: (_chain3(lib), lib.stabilizer.Stabilizer(["XZI", "ZXZ", "IZX"]), "linear"),
              lambda lib, q, s, c: lib.tomography.stabilizer_measurement_circuit(q, s, c)),
    "tomoB_meta": (lambda lib: (_chain3_meta(lib), "linear"), lambda lib, q, c: lib.tomography.full_state_tomography_circuits(q, c)),
    "measB_meta": (lambda lib: (_chain3_meta(lib), lib.stabilizer.Stabilizer(["XZI", "ZXZ", "IZX"]), "linear"),
                   lambda lib, q, s, c: lib.tomography.stabilizer_measurement_circuit(q, s, c)),
    "compressB_meta": (lambda lib: (_chain3_meta(lib), "linear"),
                       lambda lib, q, c: lib.stabilizer_circuits.compress_preparation_circuit(q, c)),
    "classify": (lambda lib: (lib.stabilizer.Stabilizer(lib.graph.Graph.linear(3)),),
                 lambda lib, s: [lib.lc_classes.determine_lc_class(s).id(), repr(lib.lc_classes.determine_lc_class(s))]),
    "classgraph": (lambda lib: (3,), lambda lib, i: lib.lc_classes.LCClass3(i).get_graph()),
    "classobj": (lambda lib: (7,), lambda lib, i: lib.lc_classes.LCClass4(i)),
    "conngraph": (lambda lib: (3, "linear"), lambda lib, n, c: lib.connectivity_support.get_connectivity_graph(n, c)),
    "avail": (lambda lib: (), lambda lib: lib.connectivity_support.get_available_connectivities()),
    "stab_graph": (lambda lib: (lib.graph.Graph.star(3),), lambda lib, g: lib.stabilizer.Stabilizer(g)),
    "stab_matrices": (lambda lib: _rs3(), lambda lib, R, S: lib.stabilizer.Stabilizer((R, S))),
    "stab_list": (lambda lib: (["XZI", "-ZXZ", "IZX"],), lambda lib, l: [lib.stabilizer.Stabilizer(l).to_list(), lib.stabilizer.Stabilizer(l).expand()]),
    "layer": (lambda lib: _rs3() + (lib.graph.Graph.linear(3),), lambda lib, R, S, g: lib.find_local_clifford_layer.find_local_clifford_layer(R, S, g)),
    "graph_lc": (lambda lib: (lib.graph.Graph.star(4), 0), lambda lib, g, v: g.local_complemented(v)),
    # the same 4-qubit state on two restricted connectivities (cross-configuration memory)
    "prep4star": (lambda lib: (lib.stabilizer.Stabilizer(list(HELD4)), "star"), lambda lib, s, c: lib.stabilizer_circuits.get_preparation_circuit(s, c)),
    "prep4lin": (lambda lib: (lib.stabilizer.Stabilizer(list(HELD4)), "linear"), lambda lib, s, c: lib.stabilizer_circuits.get_preparation_circuit(s, c)),
    "readout4cycle": (lambda lib: (lib.stabilizer.Stabilizer(list(HELD4)), "cycle"), lambda lib, s, c: lib.stabilizer_circuits.get_readout_circuit(s, c)),
    # fitters on fixed exact counts
    "fit3all": (lambda lib: (_chain3(lib), "all"), lambda lib, q, c: _fit(lib, q, c)),
    "fit3lin": (lambda lib: (_chain3(lib), "linear"), lambda lib, q, c: _fit(lib, q, c)),
    "fitS3": (lambda lib: (_chain3(lib), lib.stabilizer.Stabilizer(["XZI", "-ZXZ", "IZX"]), "linear"), lambda lib, q, s, c: _fit_stab(lib, q, s, c)),
}

HELD4 = ["+XZII", "-ZXZI", "+IZXZ", "+IIZX"]


class _Counts:
    def __init__(self, c):
        self._c = c

    def get_counts(self):
        return self._c


def _fit(lib, qc, conn):
    circuits = lib.tomography.full_state_tomography_circuits(qc, conn)
    counts = [{"101": 3, "010": 1} for _ in circuits]
    ev = lib.tomography.FullStateTomographyFitter(_Counts(counts), circuits).expectation_values()
    return sorted([str(k), float(v)] for k, v in ev.items())


def _fit_stab(lib, qc, stab, conn):
    circuit = lib.tomography.stabilizer_measurement_circuit(qc, stab, conn)
    ev = lib.tomography.StabilizerMeasurementFitter(_Counts({"110": 1, "001": 1}), circuit).expectation_values()
    return sorted([str(k), float(v)] for k, v in ev.items())


# calls on a caller-HELD Stabilizer object that is reused across calls (created at its first use in a history)
HELD_CALLS = {
    "h_expand": lambda lib, s: s.expand(),
    "h_classify": lambda lib, s: [lib.lc_classes.determine_lc_class(s).id()],
    "h_prep_lin": lambda lib, s: lib.stabilizer_circuits.get_preparation_circuit(s, "linear"),
    "h_readout_star": lambda lib, s: lib.stabilizer_circuits.get_readout_circuit(s, "star"),
    "h_tolist": lambda lib, s: [s.to_list(), s.to_list(qiskit_convention=True)],
    # requests that must be rejected -- the held object has to survive them unchanged
    "h_prep_unsupported": lambda lib, s: lib.stabilizer_circuits.get_preparation_circuit(s, "T"),
    "h_readout_unsupported": lambda lib, s: lib.stabilizer_circuits.get_readout_circuit(s, "ladder"),
    "h_measure_mismatch": lambda lib, s: lib.tomography.stabilizer_measurement_circuit(_chain3(lib), s, "linear"),
    "h_predicates": lambda lib, s: [bool(s.validate()), [bool(s.is_qubit_entangled(q)) for q in range(s.num_qubits)],
                                    bool(s.is_equivalent_mod_phase(lib.stabilizer.Stabilizer(list(HELD4))))],
}
HELD_MUTATIONS = ("rotate_q0", "flip_sign", "swap_generators")

# calls on other caller-held library objects that are created once per history and then reused
# (a class object and a table record): methods called repeatedly on the SAME object, with caller-side
# mutation of what they returned in between
HELD2_MAKE = {
    "cls": lambda lib: lib.lc_classes.LCClass4(7),
    "info": lambda lib: lib.circuit_lookup.stabilizer_circuit_lookup(3, "linear", 4),
    "graph": lambda lib: lib.graph.Graph.star(4),
}
# public value of a held object -> JSON, and the inverse (used by the fresh-interpreter oracle: the reference for a
# call on a held object is a fresh object with the same CURRENT public value, since a caller may legitimately have
# changed that value, e.g. through a returned object that shares memory with it)
HELD2_VALUE = {
    "cls": lambda o: [o.num_qubits(), int(o.id())],
    "info": lambda o: [o.num_qubits, "%d:%d:%d:%s" % (o.graph_id, o.cost, o.depth, o.circuit_string)],
    "graph": lambda o: np.asarray(o.adjacency_matrix).tolist(),
}
HELD2_REBUILD = {
    "cls": lambda lib, v: getattr(lib.lc_classes, "LCClass%d" % v[0])(v[1]),
    "info": lambda lib, v: lib.circuit_lookup.StabilizerCircuitInfo(v[0], v[1]),
    "graph": lambda lib, v: lib.graph.Graph(np.array(v, dtype=np.int8)),
}
HELD2_CALLS = {
    "o_cls_graph": ("cls", lambda lib, o: o.get_graph()),
    "o_cls_id": ("cls", lambda lib, o: [o.id(), repr(o), o.num_qubits()]),
    "o_info_parse": ("info", lambda lib, o: o.parse_circuit()),
    "o_graph_lc": ("graph", lambda lib, o: [o.local_complemented(0), o.compress(), o.get_edges()]),
    "o_graph_stab": ("graph", lambda lib, o: lib.stabilizer.Stabilizer(o)),
}


def make_held(lib):
    return lib.stabilizer.Stabilizer(list(HELD4))


def mutate_held(s, how):
    """Caller-side change of the held argument object between calls (it stays a valid stabilizer)."""
    if how == "rotate_q0":           # Hadamard on qubit 0: exchange the x and z rows of qubit 0
        r0 = s.R[0].copy()
        s.R[0] = s.S[0]
        s.S[0] = r0
    elif how == "flip_sign":
        s.phases[1] ^= 1
    elif how == "swap_generators":
        s.R[:, [0, 2]] = s.R[:, [2, 0]]
        s.S[:, [0, 2]] = s.S[:, [2, 0]]
        s.phases[[0, 2]] = s.phases[[2, 0]]


def held_from_values(lib, vals):
    R, S, ph = (np.array(v, dtype=np.int8) for v in vals)
    return lib.stabilizer.Stabilizer((R, S, ph))


def held_values(s):
    return [np.asarray(s.R).tolist(), np.asarray(s.S).tolist(), np.asarray(s.phases).tolist()]


# ------------------------------------------------------------------------------ alphabet: mutations

MUTATIONS = ("poison", "reverse_lists", "overwrite_list_items", "overwrite_dict_values", "flip_arrays", "append_gate", "overwrite_attributes")


def mutate(o, how, depth=0, seen=None):
    """Adversarial caller-side mutation of everything a caller reaches from `o` by following
    instance attributes and container elements (never through type(o), modules or functions)."""
    seen = set() if seen is None else seen
    if depth > 8 or o is None or id(o) in seen:
        return
    if isinstance(o, (bool, int, float, str, bytes, complex, type, types.ModuleType, types.FunctionType, types.BuiltinFunctionType)):
        return
    seen.add(id(o))
    every = how == "poison"
    if isinstance(o, tuple):
        for x in o:
            mutate(x, how, depth + 1, seen)
        return
    if isinstance(o, list):
        for x in list(o):
            mutate(x, how, depth + 1, seen)
        if every or how == "overwrite_list_items":
            for k in range(len(o)):
                if isinstance(o[k], (str, int, float)) or o[k] is None:
                    o[k] = "ZZZZZZ"[:len(o[k])] if isinstance(o[k], str) else 97
            if o and not isinstance(o[0], (str, int, float)):
                o[0] = o[-1]
        if every or how == "reverse_lists":
            o.reverse()
            o.append(o[0] if o else 0)
        return
    if isinstance(o, dict):
        for x in list(o.values()):
            mutate(x, how, depth + 1, seen)
        if every or how == "overwrite_dict_values":
            for k in list(o):
                if isinstance(o[k], (int, float, str)) or o[k] is None:
                    o[k] = -1
            o["__junk__"] = 1
        return
    if isinstance(o, np.ndarray):
        if (every or how == "flip_arrays") and o.size and o.flags.writeable:
            if o.dtype.kind in "iub":
                o[...] = 1 - (o & 1)
            else:
                o[...] = 7
        return
    if type(o).__name__ == "QuantumCircuit":
        if every or how == "append_gate":
            try:
                o.x(0)
                o.h(o.num_qubits - 1)
                if isinstance(o.metadata, dict):
                    o.metadata["junk"] = 1
            except Exception:      # noqa: BLE001
                pass
        return
    fields = []
    if hasattr(o, "__dict__"):
        fields += list(vars(o).keys())
    fields += [s for s in (getattr(type(o), "__slots__", ()) or ()) if isinstance(s, str) and hasattr(o, s)]
    for k in fields:
        v = getattr(o, k)
        mutate(v, how, depth + 1, seen)
        if every or how == "overwrite_attributes":
            try:
                if isinstance(v, bool):
                    pass
                elif isinstance(v, int):
                    setattr(o, k, v + 5)
                elif isinstance(v, str):
                    setattr(o, k, "h0 h0 " + v)
                elif isinstance(v, float):
                    setattr(o, k, v + 1.5)
            except Exception:      # noqa: BLE001
                pass


def clear_caches(lib):
    for path, o in global_objects():
        if isinstance(o, dict) and "cache" in path:
            o.clear()


EVENTS = [("call", c) for c in CALLS] + [("hcall", c) for c in HELD_CALLS] + [("ocall", c) for c in HELD2_CALLS] + [("mut_result", m) for m in MUTATIONS] + \
         [("mut_args", m) for m in MUTATIONS] + [("mut_held", m) for m in HELD_MUTATIONS] + [("clear", "caches")]


# ------------------------------------------------------------------------------ executing a history

def execute(history):
    """Replay a history on a fresh library instance.  Returns (observations, final canonical state);
    observations is parallel to history: for calls {'ref', 'result', 'args_before', 'args_after'} where 'ref'
    names the reference answer the result must equal."""
    lib = fresh_library()
    obs = []
    last_result = None
    last_args = None
    last_call = None
    held = None
    held2 = {}
    earlier = []      # results returned by earlier calls that the caller has not touched: (event index, object, value then)

    def earlier_changed():
        for k, o, v in earlier:
            if sers(o) != v:
                return "the object returned by event %d (%s:%s) changed during a later call" % (k + 1, history[k][0], history[k][1])
        return None
    for kind, name in history:
        if kind == "ocall":
            which, fn = HELD2_CALLS[name]
            if which not in held2:
                held2[which] = HELD2_MAKE[which](lib)
            obj = held2[which]
            before = value_sers(obj)
            try:
                val = json.dumps(HELD2_VALUE[which](obj))
            except Exception as ex:      # noqa: BLE001
                val = json.dumps("unreadable: %s" % type(ex).__name__)
            try:
                res = fn(lib, obj)
            except Exception as ex:      # noqa: BLE001
                res = ex
            after = value_sers(obj)
            obs.append({"ref": "@" + name + "|" + val, "result": sers(res), "args_before": before, "args_after": after, "earlier": earlier_changed()})
            if not isinstance(res, BaseException):
                earlier.append((len(obs) - 1, res, sers(res)))
            last_result, last_args, last_call = res, None, name
        elif kind == "call":
            make, fn = CALLS[name]
            args = make(lib)
            before = value_sers(args)
            try:
                res = fn(lib, *args)
            except Exception as ex:      # noqa: BLE001
                res = ex
            after = value_sers(args)
            obs.append({"ref": name, "result": sers(res), "args_before": before, "args_after": after, "earlier": earlier_changed()})
            if not isinstance(res, BaseException):
                earlier.append((len(obs) - 1, res, sers(res)))
            last_result, last_args, last_call = res, args, name
        elif kind == "hcall":
            if held is None:
                held = make_held(lib)
            vals = json.dumps(held_values(held))
            before = value_sers(held)
            try:
                res = HELD_CALLS[name](lib, held)
            except Exception as ex:      # noqa: BLE001
                res = ex
            after = value_sers(held)
            obs.append({"ref": name + "|" + vals, "result": sers(res), "args_before": before, "args_after": after, "earlier": earlier_changed()})
            if not isinstance(res, BaseException):
                earlier.append((len(obs) - 1, res, sers(res)))
            last_result, last_args, last_call = res, (held,), name
        elif kind == "mut_result":
            if last_result is not None and not isinstance(last_result, BaseException):
                mutate(last_result, name)
            earlier = [(k, o, sers(o)) for k, o, v in earlier]      # caller-side changes are not the library's doing
            obs.append(None)
        elif kind == "mut_args":
            if last_args is not None and not (len(last_args) == 1 and last_args[0] is held):
                mutate(last_args, name)
            earlier = [(k, o, sers(o)) for k, o, v in earlier]
            obs.append(None)
        elif kind == "mut_held":
            if held is not None:
                mutate_held(held, name)
            earlier = [(k, o, sers(o)) for k, o, v in earlier]
            obs.append(None)
        elif kind == "clear":
            clear_caches(lib)
            obs.append(None)
    caller = [("result", last_result)]
    if not (last_args is not None and len(last_args) == 1 and last_args[0] is held):
        caller.append(("args", last_args))
    roots = ([held] if held is not None else []) + [held2[k] for k in sorted(held2)]
    sig = alias_signature(caller, extra_roots=roots)
    # Caller-held results/arguments that share no mutable object with the package's global state or with the
    # held argument object cannot influence any later call, whatever the caller does to them: such histories
    # are merged (the mutation events are still executed once from every state).
    tail = [last_call, sers(last_result) if not isinstance(last_result, BaseException) else "exc", sers(last_args)] if sig else None
    state = json.dumps([global_fingerprint(), sers(held), sig, tail, [[k, sers(held2[k])] for k in sorted(held2)]])
    return obs, state


def enabled(history):
    """Events enabled after a history: mutations need a previous call; no two identical mutations in a row."""
    have_call = any(k in ("call", "hcall", "ocall") for k, _ in history)
    have_held = any(k == "hcall" for k, _ in history)
    out = []
    for ev in EVENTS:
        if ev[0] in ("mut_result", "mut_args") and not have_call:
            continue
        if ev[0] == "mut_held" and not have_held:
            continue
        if history and history[-1] == ev and ev[0] != "call":
            continue
        out.append(ev)
    return out


# ------------------------------------------------------------------------------ reference: a fresh interpreter per call

def reference_answer(name, seed):
    env = dict(os.environ)
    env["PYTHONHASHSEED"] = str(seed)
    r = subprocess.run([sys.executable, "-m", "mc.histmc", "--ref", name], cwd=core.VERIF, env=env, capture_output=True, text=True)
    if r.returncode != 0:
        raise core.HarnessError("reference interpreter failed for %s: %s" % (name, r.stderr[-400:]))
    return r.stdout.strip().splitlines()[-1]


def reference_answer_held(ref, seed=0):
    """ref = '<held call name>|<json [R,S,phases]>': a fresh interpreter builds a fresh Stabilizer with these values."""
    env = dict(os.environ)
    env["PYTHONHASHSEED"] = str(seed)
    r = subprocess.run([sys.executable, "-m", "mc.histmc", "--refheld", ref], cwd=core.VERIF, env=env, capture_output=True, text=True)
    if r.returncode != 0:
        raise core.HarnessError("reference interpreter failed for %s: %s" % (ref[:60], r.stderr[-400:]))
    return r.stdout.strip().splitlines()[-1]


def _refheld_work(ref):
    return ref, reference_answer_held(ref)


def _ref_work(payload):
    name, seed = payload
    return name, seed, reference_answer(name, seed)


def _exec_work(history):
    obs1, st1 = execute(history)
    return obs1, st1


def main_ref(name):
    obs, _ = execute([("call", name)])
    print(obs[0]["result"])


def main_refheld(ref):
    if ref.startswith("@"):
        name, val = ref[1:].split("|", 1)
        which, fn = HELD2_CALLS[name]
        lib = fresh_library()
        try:
            res = fn(lib, HELD2_REBUILD[which](lib, json.loads(val)))
        except Exception as ex:      # noqa: BLE001
            res = ex
        print(sers(res))
        return
    name, vals = ref.split("|", 1)
    lib = fresh_library()
    stab = held_from_values(lib, json.loads(vals))
    try:
        res = HELD_CALLS[name](lib, stab)
    except Exception as ex:      # noqa: BLE001
        res = ex
    print(sers(res))


if __name__ == "__main__":
    if len(sys.argv) == 3 and sys.argv[1] == "--ref":
        main_ref(sys.argv[2])
    elif len(sys.argv) == 3 and sys.argv[1] == "--refheld":
        main_refheld(sys.argv[2])
