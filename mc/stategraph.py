"""E1: explicit-state explorer of the unsigned stabilizer transition system U_n.

The heavy lifting (BFS over all states, union-find components, quotient arcs,
0/1-weighted shortest paths) is done by the C helper ``stabgraph.c``; this
module builds/loads its output, re-derives pieces of it with the independent
Python model and offers the derived oracles (LC components, optimum per class,
witness circuits, BFS traces).
"""
import os
import shutil
import subprocess
import tempfile
import numpy as np
from . import model as M

HERE = os.path.dirname(os.path.abspath(__file__))
VERIF = os.path.dirname(HERE)
BUILD = os.path.join(VERIF, "build")
BIN = os.path.join(BUILD, "stabgraph")


def compile_helper(force=False):
    os.makedirs(BUILD, exist_ok=True)
    src = os.path.join(HERE, "stabgraph.c")
    if force or not os.path.exists(BIN) or os.path.getmtime(BIN) < os.path.getmtime(src):
        tmp = BIN + ".tmp%d" % os.getpid()
        subprocess.run(["gcc", "-O2", "-std=gnu99", "-o", tmp, src], check=True)
        os.replace(tmp, BIN)
    return BIN


def pair_mask(n, edges):
    mask = 0
    for k, (a, b) in enumerate(M.pair_list(n)):
        if frozenset((a, b)) in edges:
            mask |= 1 << k
    return mask


def run_helper(n, prefix, trans_mod=0, conns=None):
    """Run the C enumerator; returns (N, G, depth, K)."""
    compile_helper()
    cmd = [BIN, str(n), prefix]
    if trans_mod:
        cmd += ["-trans", str(trans_mod)]
    for name in (M.configs_for(n) if conns is None else conns):
        cmd += ["-conn", "%s:%d" % (name, pair_mask(n, M.edge_table(n, name)))]
    out = subprocess.run(cmd, check=True, capture_output=True, text=True).stdout.split()
    return tuple(int(v) for v in out)


def prefix_for(n, directory=None):
    return os.path.join(directory or BUILD, "u%d" % n)


TRANS_MOD = {2: 1, 3: 1, 4: 1, 5: 1, 6: 256}


def build_all(directory=None, ns=(2, 3, 4, 5, 6)):
    os.makedirs(directory or BUILD, exist_ok=True)
    res = {}
    for n in ns:
        res[n] = run_helper(n, prefix_for(n, directory), trans_mod=TRANS_MOD[n])
        with open(prefix_for(n, directory) + ".meta", "w") as f:
            f.write("%d %d %d %d\n" % res[n])
    return res


def scratch_dir():
    """A scratch directory under /verif/build/tmp (never /tmp); caller removes it."""
    base = os.path.join(BUILD, "tmp")
    os.makedirs(base, exist_ok=True)
    return tempfile.mkdtemp(dir=base)


class StateGraph:
    """Loaded output of the C helper for one n."""

    def __init__(self, n, directory=None, fresh=False, trans_mod=None):
        self.n = n
        self._tmp = None
        if trans_mod is None:
            trans_mod = TRANS_MOD[n]
        if fresh:
            self._tmp = scratch_dir()
            directory = self._tmp
            self.meta = run_helper(n, prefix_for(n, directory), trans_mod=trans_mod)
        else:
            p = prefix_for(n, directory)
            if not os.path.exists(p + ".meta"):
                os.makedirs(directory or BUILD, exist_ok=True)
                meta = run_helper(n, p, trans_mod=trans_mod)
                with open(p + ".meta", "w") as f:
                    f.write("%d %d %d %d\n" % meta)
            with open(p + ".meta") as f:
                self.meta = tuple(int(v) for v in f.read().split())
        self.prefix = prefix_for(n, directory)
        self.N, self.G, self.depth, self.K = self.meta
        self.states = np.fromfile(self.prefix + ".states", dtype=np.uint16).reshape(self.N, n)
        self.parent = np.fromfile(self.prefix + ".parent", dtype=np.uint32)
        self.pgate = np.fromfile(self.prefix + ".pgate", dtype=np.uint8)
        self.comp = np.fromfile(self.prefix + ".comp", dtype=np.uint16)
        P = n * (n - 1) // 2
        self.arcs = np.fromfile(self.prefix + ".arcs", dtype=np.uint8).reshape(P, self.K, self.K)
        self.trans_mod = trans_mod
        self.trans = None
        if trans_mod and os.path.exists(self.prefix + ".trans"):
            self.trans = np.fromfile(self.prefix + ".trans", dtype=np.uint32).reshape(-1, self.G)
        self.gates = M.graph_gates(n)
        self._first = None
        self._index = None

    def close(self):
        if self._tmp:
            shutil.rmtree(self._tmp, ignore_errors=True)
            self._tmp = None

    # ---------------------------------------------------------------- basic access
    def key(self, i):
        return tuple(int(v) for v in self.states[i])

    def gens(self, i, signs=0):
        return M.key_to_gens(self.key(i), self.n, signs)

    def trace(self, i):
        """Shortest gate sequence over {H,S,CZ} from |0..0> to state i (BFS tree)."""
        out = []
        while i != 0:
            out.append(self.gates[int(self.pgate[i])])
            i = int(self.parent[i])
        out.reverse()
        return out

    def first_of_component(self):
        if self._first is None:
            first = np.full(self.K, -1, dtype=np.int64)
            idx = np.arange(self.N - 1, -1, -1)
            first[self.comp[idx]] = idx        # last assignment wins = smallest index
            self._first = first
        return self._first

    def index_of(self, key):
        """Index of an unsigned RREF key (tuple of row integers)."""
        if self._index is None:
            hi = self.states[:, 0].astype(np.uint64)
            packed = np.zeros(self.N, dtype=np.uint64)
            for c in range(1, self.n):
                packed = (packed << np.uint64(12)) | self.states[:, c].astype(np.uint64)
            order = np.lexsort((packed, hi))
            self._sorted = (hi[order], packed[order], order)
            self._index = True
        hi_v = np.uint64(key[0])
        pk = 0
        for c in range(1, self.n):
            pk = (pk << 12) | key[c]
        hs, ps, order = self._sorted
        lo = np.searchsorted(hs, hi_v, "left")
        up = np.searchsorted(hs, hi_v, "right")
        j = lo + np.searchsorted(ps[lo:up], np.uint64(pk), "left")
        if j >= up or ps[j] != np.uint64(pk):
            raise KeyError(key)
        return int(order[j])

    def component_of_gens(self, gens):
        return int(self.comp[self.index_of(M.canon_unsigned(gens, self.n))])

    def members(self, c, limit=None):
        idx = np.nonzero(self.comp == c)[0]
        return idx if limit is None else idx[:limit]

    # ---------------------------------------------------------------- oracles
    def opt_table(self, conn):
        """C helper's 0/1-BFS result: list over components of (dist, state_index, gates)."""
        out = [None] * self.K
        with open("%s.opt.%s" % (self.prefix, conn)) as f:
            for line in f:
                v = [int(t) for t in line.split()]
                out[v[0]] = (v[1], v[2], [self.gates[g] for g in v[4:4 + v[3]]])
        return out

    def quotient_dist(self, edges):
        """BFS distance from the product component in the class quotient under CZ on
        `edges` -- computed here in Python from the arc bitmaps (second derivation)."""
        n, K = self.n, self.K
        adj = np.zeros((K, K), dtype=bool)
        for k, (a, b) in enumerate(M.pair_list(n)):
            if frozenset((a, b)) in edges:
                adj |= self.arcs[k].astype(bool)
        start = int(self.comp[0])
        dist = [-1] * K
        dist[start] = 0
        frontier = [start]
        narcs = int(adj.sum())
        while frontier:
            nxt = []
            for c in frontier:
                for d in np.nonzero(adj[c])[0]:
                    if dist[d] < 0:
                        dist[d] = dist[c] + 1
                        nxt.append(int(d))
            frontier = nxt
        return dist, narcs


def python_transitions(n, keys):
    """Re-derive the transition rows of the given unsigned keys with the Python model.
    Returns list of lists of successor keys, gate order as the C helper."""
    gates = M.graph_gates(n)
    out = []
    for key in keys:
        gens = M.key_to_gens(key, n)
        out.append([M.canon_unsigned([M.conj(p, g) for p in gens], n) for g in gates])
    return out


# ---------------------------------------------------------------------------- self-check (DESIGN section 4, link 2)

def _rederive(payload):
    n, keys = payload
    return python_transitions(n, keys)


def selfcheck(g, ctx=None, stride=1):
    """Cross-check the C helper's output against closed formulas, vectorised validity
    tests and the independent Python model.  Raises HarnessError on any disagreement.
    Returns the number of transition rows re-derived with the Python model."""
    from . import core
    n, N = g.n, g.N
    if N != M.N_GROUPS[n]:
        raise core.HarnessError("n=%d: %d states, closed formula says %d" % (n, N, M.N_GROUPS[n]))
    st = g.states.astype(np.uint32)
    # distinct
    packed_hi = st[:, 0].astype(np.uint64)
    packed = np.zeros(N, dtype=np.uint64)
    for c in range(1, n):
        packed = (packed << np.uint64(12)) | st[:, c].astype(np.uint64)
    uniq = np.unique(np.stack([packed_hi, packed], axis=1), axis=0)
    if len(uniq) != N:
        raise core.HarnessError("n=%d: duplicate states in the enumeration" % n)
    # isotropic: symplectic product of every pair of rows is 0
    mask = (1 << n) - 1
    x = st & mask
    z = st >> n

    def par(v):
        v = v ^ (v >> 8)
        v = v ^ (v >> 4)
        v = v ^ (v >> 2)
        v = v ^ (v >> 1)
        return v & 1
    for i in range(n):
        for j in range(i + 1, n):
            if np.any(par(x[:, i] & z[:, j]) ^ par(z[:, i] & x[:, j])):
                raise core.HarnessError("n=%d: non-commuting rows in a state" % n)
    # RREF with rank n: leading bits strictly decreasing, pivot column clear elsewhere
    if np.any(st == 0):
        raise core.HarnessError("n=%d: zero row" % n)
    lead = np.floor(np.log2(st.astype(np.float64))).astype(np.uint32)
    for i in range(n - 1):
        if np.any(lead[:, i] <= lead[:, i + 1]):
            raise core.HarnessError("n=%d: rows not in echelon order" % n)
    for i in range(n):
        for j in range(n):
            if i != j and np.any((st[:, j] >> lead[:, i]) & 1):
                raise core.HarnessError("n=%d: pivot column not reduced" % n)
    # transitions re-derived with the Python model
    if g.trans is None:
        raise core.HarnessError("n=%d: no transition dump to cross-check" % n)
    rows = list(range(0, N, g.trans_mod))
    if len(rows) != g.trans.shape[0]:
        raise core.HarnessError("n=%d: transition dump has %d rows, expected %d" % (n, g.trans.shape[0], len(rows)))
    sel = list(range(0, len(rows), stride))
    keys = [g.key(rows[k]) for k in sel]
    parts = core.pmap(_rederive, [(n, c) for c in core.chunk_list(keys, 64)])
    derived = [r for part in parts for r in part]
    P0 = 2 * n
    for k, succ in zip(sel, derived):
        i = rows[k]
        for gi, key in enumerate(succ):
            t = int(g.trans[k, gi])
            if g.key(t) != key:
                raise core.HarnessError("n=%d: C helper and Python model disagree on state %d gate %r" % (n, i, g.gates[gi]))
            if gi < P0:
                if g.comp[t] != g.comp[i]:
                    raise core.HarnessError("n=%d: local gate leaves the component (state %d)" % (n, i))
            elif not g.arcs[gi - P0, g.comp[i], g.comp[t]]:
                raise core.HarnessError("n=%d: quotient arc missing (state %d gate %r)" % (n, i, g.gates[gi]))
    # BFS tree: parent's transition under pgate leads to the child (checked on dumped rows)
    rowpos = {r: k for k, r in enumerate(rows)}
    for i in range(1, N, max(1, N // 5000)):
        p = int(g.parent[i])
        if p in rowpos and int(g.trans[rowpos[p], int(g.pgate[i])]) != i:
            raise core.HarnessError("n=%d: BFS tree edge inconsistent at state %d" % (n, i))
    if ctx is not None:
        ctx.count("model_transition_rows_rederived", len(sel))
        ctx.count("model_states_validated", N)
    return len(sel)


def full_recheck(n, ctx=None):
    """Thorough: rebuild the graph from scratch with a full transition dump, recompute
    the components with scipy and compare everything with the build/ artefacts."""
    from . import core
    from scipy.sparse import coo_matrix
    from scipy.sparse.csgraph import connected_components
    ref = StateGraph(n)
    fresh = StateGraph(n, fresh=True, trans_mod=1)
    try:
        for name in ("states", "parent", "pgate", "comp", "arcs"):
            if not np.array_equal(getattr(ref, name), getattr(fresh, name)):
                raise core.HarnessError("n=%d: rebuilt %s differs from build/ artefact" % (n, name))
        N, G = fresh.N, fresh.G
        src = np.repeat(np.arange(N, dtype=np.int64), 2 * n)
        dst = fresh.trans[:, :2 * n].astype(np.int64).reshape(-1)
        ncomp, labels = connected_components(coo_matrix((np.ones(len(src), dtype=np.int8), (src, dst)), shape=(N, N)),
                                             directed=False)
        if ncomp != fresh.K:
            raise core.HarnessError("n=%d: scipy finds %d components, C helper %d" % (n, ncomp, fresh.K))
        # same partition: the map C label -> scipy label must be a bijection
        pairs = np.unique(np.stack([fresh.comp.astype(np.int64), labels.astype(np.int64)], axis=1), axis=0)
        if len(pairs) != ncomp:
            raise core.HarnessError("n=%d: component partitions differ" % n)
        # arcs recomputed with numpy
        for k in range(n * (n - 1) // 2):
            t = fresh.trans[:, 2 * n + k]
            arc = np.zeros((fresh.K, fresh.K), dtype=np.uint8)
            arc[fresh.comp, fresh.comp[t]] = 1
            if not np.array_equal(arc, fresh.arcs[k]):
                raise core.HarnessError("n=%d: quotient arcs differ for pair %d" % (n, k))
        if ctx is not None:
            ctx.count("model_full_rebuild_states", N)
            ctx.count("model_full_rebuild_transitions", N * G)
        ntrans = N * G
    finally:
        fresh.close()
    return ntrans
