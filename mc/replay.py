"""Replay one recorded case on the current tree, without the explorer:

    /venv/bin/python -m mc.replay /verif/replay/Cxx-<hash>.json

Exit 1 and 'verdict=VIOLATION' if the case still violates the property, exit 0
and 'verdict=HOLDS' otherwise."""
import importlib
import json
import sys


def replay_case(body):
    mod = importlib.import_module("mc.checks.%s" % body["property"].lower())
    fn = mod.REPLAY[body["kind"]]
    return fn(body)


def replay_file(path):
    with open(path) as f:
        body = json.load(f)
    return replay_case(body)


def main(argv=None):
    argv = sys.argv[1:] if argv is None else argv
    path = argv[0]
    with open(path) as f:
        body = json.load(f)
    msg = replay_case(body)
    if msg is None:
        print("REPLAY property=%s verdict=HOLDS case=%s" % (body["property"], path))
        return 0
    print("REPLAY property=%s verdict=VIOLATION case=%s" % (body["property"], path))
    print("   " + str(msg)[:2000])
    return 1


if __name__ == "__main__":
    sys.exit(main())
