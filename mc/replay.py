"""Replay one recorded case on the current tree, without the explorer:

    /venv/bin/python -m mc.replay /verif/replay/Cxx-<hash>.json

Exit 1 and 'verdict=VIOLATION' if the case still violates the property, exit 0
and 'verdict=HOLDS' otherwise."""
import importlib
import json
import sys


def replay_case(body, with_history=True, shrink=True):
    """None if the case holds on the current tree, else a message.  A case that holds on its own but was
    recorded together with the calls that preceded it in its worker process is replayed after those calls."""
    mod = importlib.import_module("mc.checks.%s" % body["property"].lower())
    fn = mod.REPLAY[body["kind"]]
    single = {k: v for k, v in body.items() if k != "preceding"}
    msg = fn(single)
    if msg is not None or not with_history or not body.get("preceding"):
        return msg
    # history-dependent?  replay the preceding calls in a FRESH interpreter, then the case
    import subprocess, sys, json, tempfile, os
    pre = body["preceding"]
    best = None
    sizes = sorted({len(pre)} | ({min(len(pre), 1 << j) for j in range(0, 12)} if shrink else set()), reverse=True)
    for k in sizes:
        with tempfile.NamedTemporaryFile("w", suffix=".json", delete=False, dir=os.path.dirname(os.path.abspath(__file__)) + "/../build") as f:
            json.dump(dict(single, preceding=pre[len(pre) - k:]), f)
            tmp = f.name
        try:
            r = subprocess.run([sys.executable, "-m", "mc.replay", "--sequence", tmp], capture_output=True, text=True,
                               cwd=os.path.dirname(os.path.dirname(os.path.abspath(__file__))))
        finally:
            os.remove(tmp)
        if r.returncode == 1:
            best = (k, r.stdout.strip().splitlines()[-1] if r.stdout.strip() else "")
        elif best is not None or k == len(pre):
            break
    if best is None:
        return None
    return "[history-dependent: holds when called first in a fresh process, fails after the %d preceding calls of its work chunk (of %d recorded)] %s" % (
        best[0], len(pre), best[1])


def replay_sequence(body):
    """Run the preceding cases and then the case itself, all in THIS (fresh) process."""
    mod = importlib.import_module("mc.checks.%s" % body["property"].lower())
    for c in body.get("preceding", []):
        cc = dict(c)
        cc.setdefault("property", body["property"])
        try:
            mod.REPLAY[cc["kind"]](cc)
        except Exception:      # noqa: BLE001  (only the final case is judged)
            pass
    single = {k: v for k, v in body.items() if k != "preceding"}
    return mod.REPLAY[body["kind"]](single)


def replay_file(path, shrink=True):
    with open(path) as f:
        body = json.load(f)
    return replay_case(body, shrink=shrink)


def main(argv=None):
    argv = sys.argv[1:] if argv is None else argv
    if argv and argv[0] == "--sequence":
        with open(argv[1]) as f:
            body = json.load(f)
        try:
            msg = replay_sequence(body)
        except Exception:      # noqa: BLE001
            import traceback
            traceback.print_exc()
            return 2
        print("   " + str(msg)[:1500] if msg else "holds")
        return 1 if msg else 0
    shrink = "--no-shrink" not in argv
    argv = [a for a in argv if a != "--no-shrink"]
    path = argv[0]
    with open(path) as f:
        body = json.load(f)
    try:
        msg = replay_case(body, shrink=shrink)
    except Exception:      # noqa: BLE001  (a crashing replayer must not look like a reproduced violation)
        import traceback
        traceback.print_exc()
        print("REPLAY property=%s verdict=ERROR case=%s" % (body.get("property"), path))
        return 2
    if msg is None:
        print("REPLAY property=%s verdict=HOLDS case=%s" % (body["property"], path))
        return 0
    print("REPLAY property=%s verdict=VIOLATION case=%s" % (body["property"], path))
    print("   " + str(msg)[:2000])
    return 1


if __name__ == "__main__":
    sys.exit(main())
