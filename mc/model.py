"""Reference model: the stabilizer transition system M_n (DESIGN.md section 2).

Independent of htstabilizer and of Qiskit.  A Pauli operator is a triple
``(x, z, ph)`` of two bit masks over the qubits (qubit q = bit q) and a phase
exponent ``ph`` in Z_4, denoting ``i^ph * X^x * Z^z`` (all X factors to the left
of all Z factors).  A Hermitian Pauli written with the letter Y (= iXZ) and sign
``s`` (0 = '+', 1 = '-') has ``ph = popcount(x & z) + 2 s``.

A *state* is a list of n commuting independent Hermitian Paulis (generators of
its stabilizer group).  Its canonical form is the signed reduced row echelon
form computed with the exact product below, so signs are carried correctly.
"""
from itertools import combinations

GATE_ARITY = {"i": 1, "id": 1, "x": 1, "y": 1, "z": 1, "h": 1, "s": 1, "sdg": 1,
              "cx": 2, "cz": 2, "swap": 2}
TWO_QUBIT_COST = {"cx": 1, "cz": 1, "swap": 3}


def pc(v):
    return bin(v).count("1")


def mul(p, q):
    """Exact product p*q."""
    return (p[0] ^ q[0], p[1] ^ q[1], (p[2] + q[2] + 2 * pc(p[1] & q[0])) & 3)


def herm(x, z, sign):
    """Hermitian Pauli (letters X, Y, Z) with sign bit."""
    return (x, z, (pc(x & z) + 2 * sign) & 3)


def sign_of(p):
    """Sign bit of a Hermitian Pauli; raises if p is not Hermitian."""
    d = (p[2] - pc(p[0] & p[1])) & 3
    if d not in (0, 2):
        raise ValueError("not a Hermitian Pauli: %r" % (p,))
    return d >> 1


def commute(p, q):
    return (pc(p[0] & q[1]) + pc(p[1] & q[0])) & 1 == 0


def conj(p, g):
    """P -> U P U^dagger for gate g = (name, a[, b]); cx: a control, b target."""
    x, z, ph = p
    name = g[0]
    if name in ("i", "id"):
        return p
    a = g[1]
    xa = (x >> a) & 1
    za = (z >> a) & 1
    if name == "h":
        if xa != za:
            x ^= 1 << a
            z ^= 1 << a
        ph += 2 * (xa & za)
    elif name == "s":
        z ^= xa << a
        ph += xa
    elif name == "sdg":
        z ^= xa << a
        ph += 3 * xa
    elif name == "x":
        ph += 2 * za
    elif name == "z":
        ph += 2 * xa
    elif name == "y":
        ph += 2 * (xa ^ za)
    else:
        b = g[2]
        if a == b:
            raise ValueError("two-qubit gate on one qubit: %r" % (g,))
        xb = (x >> b) & 1
        zb = (z >> b) & 1
        if name == "cz":
            z ^= (xb << a) | (xa << b)
            ph += 2 * (xa & xb)
        elif name == "cx":
            x ^= xa << b
            z ^= zb << a
        elif name == "swap":
            if xa != xb:
                x ^= (1 << a) | (1 << b)
            if za != zb:
                z ^= (1 << a) | (1 << b)
        else:
            raise ValueError("gate outside the model alphabet: %r" % (g,))
    return (x, z, ph & 3)


def conj_seq(p, gates):
    for g in gates:
        p = conj(p, g)
    return p


def zero_state(n):
    return [(0, 1 << q, 0) for q in range(n)]


def run(gates, n, gens=None):
    """Apply a gate list to a state (default |0..0>); returns the generator list."""
    gens = zero_state(n) if gens is None else list(gens)
    for g in gates:
        gens = [conj(p, g) for p in gens]
    return gens


def inverse_gates(gates):
    inv = {"s": "sdg", "sdg": "s"}
    return [(inv.get(g[0], g[0]),) + tuple(g[1:]) for g in reversed(gates)]


# --------------------------------------------------------------------------- canonical forms

def canon(gens, n):
    """Signed RREF: tuple of (x, z, sign) rows; raises if generators are not
    Hermitian.  Columns are ordered z_{n-1} .. z_0 x_{n-1} .. x_0 (bit 2n-1 .. 0 of
    the integer  x | z << n); dependent generators give shorter output."""
    rows = list(gens)
    h = 0
    for col in range(2 * n - 1, -1, -1):
        piv = None
        for r in range(h, len(rows)):
            k = rows[r][0] | (rows[r][1] << n)
            if (k >> col) & 1:
                piv = r
                break
        if piv is None:
            continue
        rows[h], rows[piv] = rows[piv], rows[h]
        for r in range(len(rows)):
            if r != h and (((rows[r][0] | (rows[r][1] << n)) >> col) & 1):
                rows[r] = mul(rows[r], rows[h])
        h += 1
        if h == len(rows):
            break
    out = []
    for r in rows:
        if r[0] == 0 and r[1] == 0:
            out.append((0, 0, r[2]))      # identity with a phase (dependent set)
        else:
            out.append((r[0], r[1], sign_of(r)))
    return tuple(out)


def canon_unsigned(gens, n):
    """Unsigned RREF as a tuple of integers  x | z << n  (zero rows dropped)."""
    rows = [(p[0] | (p[1] << n)) for p in gens]
    h = 0
    for col in range(2 * n - 1, -1, -1):
        piv = None
        for r in range(h, len(rows)):
            if (rows[r] >> col) & 1:
                piv = r
                break
        if piv is None:
            continue
        rows[h], rows[piv] = rows[piv], rows[h]
        for r in range(len(rows)):
            if r != h and ((rows[r] >> col) & 1):
                rows[r] ^= rows[h]
        h += 1
        if h == len(rows):
            break
    return tuple(r for r in rows[:h])


def key_to_gens(key, n, signs=0):
    """Unsigned key rows -> Hermitian generators with sign bit i of `signs` on row i."""
    m = (1 << n) - 1
    return [herm(k & m, k >> n, (signs >> i) & 1) for i, k in enumerate(key)]


def is_valid(gens, n):
    """n commuting independent Hermitian Paulis."""
    if len(gens) != n:
        return False
    for a, b in combinations(gens, 2):
        if not commute(a, b):
            return False
    return len(canon_unsigned(gens, n)) == n


def expand(gens):
    """All 2^m products of the generators (index bit j <-> generator j), exact phases."""
    out = [(0, 0, 0)]
    for g in gens:
        out = out + [mul(p, g) for p in out]
    # out[i] uses generator j iff bit j of i is set -- but the order of factors is
    # g_j1 * g_j2 .. with ascending j on the LEFT?  out = old + [old*g]: old first, g last.
    return out


def span_unsigned(gens, n):
    s = {0}
    for p in gens:
        k = p[0] | (p[1] << n)
        s |= {v ^ k for v in s}
    return s


# --------------------------------------------------------------------------- text formats

def parse_pauli(s):
    """'+XYZ' / '-XYZ' / 'XYZ' -> Hermitian Pauli; first character = qubit 0.
    Any character outside XYZ counts as identity (as the library documents)."""
    sign = 0
    if s[:1] == "+":
        s = s[1:]
    elif s[:1] == "-":
        sign = 1
        s = s[1:]
    x = z = 0
    for q, ch in enumerate(s):
        if ch in "XY":
            x |= 1 << q
        if ch in "ZY":
            z |= 1 << q
    return herm(x, z, sign)


def pauli_str(p, n, with_sign=True):
    s = "".join("IXZY"[((p[0] >> q) & 1) | (((p[1] >> q) & 1) << 1)] for q in range(n))
    if with_sign:
        return "+-"[sign_of(p)] + s
    return s


def gens_str(gens, n):
    return [pauli_str(p, n) for p in gens]


def parse_gens(strs):
    return [parse_pauli(s) for s in strs]


def graph_state_gens(n, adj_masks):
    """Generators X_v Z_N(v) of the graph state; adj_masks[v] = neighbour bit mask."""
    return [herm(1 << v, adj_masks[v], 0) for v in range(n)]


def graph_id_to_masks(n, gid):
    """Compressed graph id -> neighbour masks; bit k <-> k-th pair (i<j) row-major."""
    masks = [0] * n
    k = 0
    for i in range(n - 1):
        for j in range(i + 1, n):
            if (gid >> k) & 1:
                masks[i] |= 1 << j
                masks[j] |= 1 << i
            k += 1
    return masks


def masks_to_graph_id(n, masks):
    gid = 0
    k = 0
    for i in range(n - 1):
        for j in range(i + 1, n):
            if (masks[i] >> j) & 1:
                gid |= 1 << k
            k += 1
    return gid


# --------------------------------------------------------------------------- circuits

def check_alphabet(gates, n, allowed=None):
    """Return None if every gate is in the alphabet with distinct in-range qubits,
    else a message."""
    for g in gates:
        name = g[0]
        if name not in GATE_ARITY or (allowed is not None and name not in allowed):
            return "gate %r outside the alphabet" % (g,)
        if len(g) - 1 != GATE_ARITY[name]:
            return "gate %r has wrong arity" % (g,)
        if any((not isinstance(q, int)) or q < 0 or q >= n for q in g[1:]):
            return "gate %r has a qubit index out of range" % (g,)
        if len(g) == 3 and g[1] == g[2]:
            return "gate %r acts twice on one qubit" % (g,)
    return None


def two_qubit_cost(gates):
    return sum(TWO_QUBIT_COST[g[0]] for g in gates if len(g) == 3)


def two_qubit_depth(gates, n):
    """ASAP two-qubit depth; a swap occupies three layers."""
    t = [0] * n
    for g in gates:
        if len(g) == 3:
            d = max(t[g[1]], t[g[2]]) + (3 if g[0] == "swap" else 1)
            t[g[1]] = t[g[2]] = d
    return max(t) if t else 0


def off_edge(gates, edges):
    """First multi-qubit gate not on an edge (edges: set of frozenset pairs), or None."""
    for g in gates:
        if len(g) >= 3 and frozenset(g[1:]) not in edges:
            return g
    return None


# --------------------------------------------------------------------------- single-qubit Cliffords mod Paulis

# six representatives as gate-name sequences (applied left to right)
LOCAL6 = [(), ("h",), ("s",), ("s", "h"), ("h", "s"), ("h", "s", "h")]


def local_layer_gates(choice):
    """choice[q] in 0..5 -> gate list."""
    out = []
    for q, c in enumerate(choice):
        for name in LOCAL6[c]:
            out.append((name, q))
    return out


# --------------------------------------------------------------------------- connectivity table
# Transcribed from the property statement / README -- NOT from the library.

def edge_table(n, name):
    def chain(k):
        return [(i, i + 1) for i in range(k - 1)]
    if name == "all":
        e = list(combinations(range(n), 2))
    elif name == "linear":
        e = chain(n)
    elif name == "star":
        e = [(0, i) for i in range(1, n)]
    elif name == "cycle":
        e = chain(n) + [(n - 1, 0)]
    elif name == "T":
        e = [(4, 3), (3, 0), (0, 1), (0, 2)]
    elif name == "Q":
        e = chain(n) + [(n - 1, n - 4)]
    elif name == "ladder":
        e = chain(6) + [(5, 0), (1, 4)]
    elif name == "E":
        e = [(3, 0), (0, 1), (1, 2), (2, 5), (1, 4)]
    elif name == "H":
        e = [(0, 1), (1, 2), (3, 4), (4, 5), (1, 4)]
    else:
        raise KeyError(name)
    return {frozenset(p) for p in e}


CONFIGS = [(2, "all"), (3, "all"), (3, "linear"),
           (4, "all"), (4, "linear"), (4, "star"), (4, "cycle"),
           (5, "all"), (5, "linear"), (5, "star"), (5, "cycle"), (5, "T"), (5, "Q"),
           (6, "all"), (6, "linear"), (6, "star"), (6, "ladder"), (6, "E"), (6, "H"), (6, "Q")]


def configs_for(n):
    return [c for (m, c) in CONFIGS if m == n]


N_GROUPS = {1: 3, 2: 15, 3: 135, 4: 2295, 5: 75735, 6: 4922775}
N_CLASSES = {2: 2, 3: 5, 4: 18, 5: 93, 6: 760}


def pair_list(n):
    return list(combinations(range(n), 2))


def graph_gates(n):
    """Gate alphabet of the state graph in the order the C helper uses."""
    return [("h", q) for q in range(n)] + [("s", q) for q in range(n)] + \
           [("cz", a, b) for a, b in pair_list(n)]


# --------------------------------------------------------------------------- presentations

def presentations(gens, radius):
    """Other generating sets of the same signed group.  radius 1: the generators
    themselves, every ADD(i->j) (g_j := g_j*g_i) and every SWAPROW(i,j);
    radius 'all': every ordered generating set (all invertible binary matrices)."""
    n = len(gens)
    if radius == 0:
        return [list(gens)]
    if radius == 1:
        out = [list(gens)]
        for i in range(n):
            for j in range(n):
                if i != j:
                    g = list(gens)
                    g[j] = mul(g[j], g[i])
                    out.append(g)
        for i in range(n):
            for j in range(i + 1, n):
                g = list(gens)
                g[i], g[j] = g[j], g[i]
                out.append(g)
        return out
    if radius == "star":
        # dense presentations: every other generator multiplied by a chosen one (n of them), and the
        # cumulative products g_0, g_0 g_1, g_0 g_1 g_2, ... -- generators that all overlap
        out = []
        for i in range(n):
            out.append([gens[j] if j == i else mul(gens[j], gens[i]) for j in range(n)])
        acc = []
        cur = None
        for j in range(n):
            cur = gens[j] if cur is None else mul(cur, gens[j])
            acc.append(cur)
        out.append(acc)
        return out
    if radius == "all":
        elems = expand(gens)       # index bit j <-> generator j
        out = []
        from itertools import product
        for rows in product(range(1, 1 << n), repeat=n):
            # invertible iff the rows are linearly independent over GF(2)
            span = {0}
            ok = True
            for r in rows:
                if r in span:
                    ok = False
                    break
                span |= {v ^ r for v in span}
            if ok:
                out.append([elems[r] for r in rows])
        return out
    raise ValueError(radius)


def in_group(p, gens, n):
    """True iff the Hermitian Pauli p (with its sign) lies in the group generated by the
    commuting independent Hermitian Paulis `gens` -- i.e. the state stabilised by `gens`
    is a +1 eigenstate of p."""
    rows = [herm(*r) for r in canon(gens, n)]
    acc = p
    for r in rows:
        k = r[0] | (r[1] << n)
        piv = k.bit_length() - 1
        if ((acc[0] | (acc[1] << n)) >> piv) & 1:
            acc = mul(acc, r)
    return acc == (0, 0, 0)
