"""Self-checks of the model (DESIGN.md section 4, link 1): every gate rule of
mc.model is compared with U P U^dagger computed from explicit numpy matrices, for
every Pauli operator with every phase, in every placement of the gate.

Trusted base after this: numpy matrix multiplication and the textbook gate
matrices written out below.
"""
import itertools
import numpy as np
from . import model as M

I2 = np.eye(2, dtype=complex)
X = np.array([[0, 1], [1, 0]], dtype=complex)
Z = np.array([[1, 0], [0, -1]], dtype=complex)
Y = np.array([[0, -1j], [1j, 0]], dtype=complex)
H = np.array([[1, 1], [1, -1]], dtype=complex) / np.sqrt(2)
S = np.array([[1, 0], [0, 1j]], dtype=complex)
ONE_Q = {"i": I2, "id": I2, "x": X, "y": Y, "z": Z, "h": H, "s": S, "sdg": S.conj().T}


def kron_all(ops):
    """ops[q] acts on qubit q; qubit 0 is the least significant bit of the basis index."""
    out = np.array([[1]], dtype=complex)
    for op in ops:          # later qubits go to the left (more significant)
        out = np.kron(op, out)
    return out


def pauli_matrix(p, n):
    x, z, ph = p
    xs = kron_all([X if (x >> q) & 1 else I2 for q in range(n)])
    zs = kron_all([Z if (z >> q) & 1 else I2 for q in range(n)])
    return (1j ** ph) * xs @ zs


def gate_matrix(g, n):
    name = g[0]
    if name in ONE_Q:
        return kron_all([ONE_Q[name] if q == g[1] else I2 for q in range(n)])
    a, b = g[1], g[2]
    dim = 1 << n
    U = np.zeros((dim, dim), dtype=complex)
    for i in range(dim):
        ba, bb = (i >> a) & 1, (i >> b) & 1
        if name == "cz":
            U[i, i] = -1 if (ba and bb) else 1
        elif name == "cx":       # a control, b target
            j = i ^ (1 << b) if ba else i
            U[j, i] = 1
        elif name == "swap":
            j = i
            if ba != bb:
                j = i ^ (1 << a) ^ (1 << b)
            U[j, i] = 1
        else:
            raise KeyError(name)
    return U


def all_gates(n):
    out = []
    for name, ar in M.GATE_ARITY.items():
        if ar == 1:
            out += [(name, q) for q in range(n)]
        else:
            out += [(name, a, b) for a in range(n) for b in range(n) if a != b]
    return out


def gate_rules_vs_matrices(ns=(1, 2, 3)):
    """Returns the number of identities U P U^dagger == model checked; raises on mismatch."""
    count = 0
    for n in ns:
        for g in all_gates(n):
            if n == 3 and len(g) == 2:
                continue           # one-qubit gates are covered by n = 1, 2
            U = gate_matrix(g, n)
            for x, z, ph in itertools.product(range(1 << n), range(1 << n), range(4)):
                p = (x, z, ph)
                lhs = U @ pauli_matrix(p, n) @ U.conj().T
                rhs = pauli_matrix(M.conj(p, g), n)
                if not np.allclose(lhs, rhs):
                    raise AssertionError("gate rule wrong: %r on %r" % (g, p))
                count += 1
    # product rule
    n = 2
    for p in itertools.product(range(4), range(4), range(4)):
        for q in itertools.product(range(4), range(4), range(4)):
            if not np.allclose(pauli_matrix(p, n) @ pauli_matrix(q, n), pauli_matrix(M.mul(p, q), n)):
                raise AssertionError("product rule wrong: %r * %r" % (p, q))
            count += 1
    # letters: herm(x,z,s) is the Hermitian Pauli with letter Y = iXZ
    for s in (0, 1):
        if not np.allclose(pauli_matrix(M.herm(1, 1, s), 1), (-1) ** s * Y):
            raise AssertionError("Y convention")
        count += 1
    return count


def dense_state(gates, n):
    """Statevector of gates|0..0> (qubit 0 = least significant bit)."""
    v = np.zeros(1 << n, dtype=complex)
    v[0] = 1
    for g in gates:
        v = gate_matrix(g, n) @ v
    return v


def stabilizes(gens, vec, n):
    return all(np.allclose(pauli_matrix(p, n) @ vec, vec) for p in gens)


if __name__ == "__main__":
    print("identities checked:", gate_rules_vs_matrices())
    # the simulator agrees with dense evolution on a few circuits
    gs = [("h", 0), ("cx", 0, 1), ("s", 1), ("y", 0), ("swap", 0, 2), ("sdg", 2), ("cz", 1, 2)]
    assert stabilizes(M.run(gs, 3), dense_state(gs, 3), 3)
    print("ok")
