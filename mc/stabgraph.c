/* stabgraph.c -- explicit-state enumeration of the unsigned stabilizer transition
 * system U_n (DESIGN.md section 2), n <= 6.
 *
 * State   : n rows, each a (2n)-bit integer  x | z << n, in reduced row echelon
 *           form over columns 2n-1 .. 0.
 * Gates   : H_0..H_{n-1}, S_0..S_{n-1}, CZ_{ab} (a<b, row-major)   (G = 2n + n(n-1)/2)
 * Search  : breadth first from |0..0> (rows Z_{n-1} .. Z_0 after RREF); index
 *           order = discovery order.
 *
 * usage: stabgraph n prefix [-trans M] [-conn name:pairmask]...
 * writes  prefix.states  uint16[N*n]
 *         prefix.parent  uint32[N], prefix.pgate uint8[N]      (BFS tree)
 *         prefix.comp    uint16[N]   component under the local gates H_q, S_q,
 *                                    labelled in order of first appearance
 *         prefix.arcs    uint8[P*K*K] arcs[p][c][c'] = 1 iff some state of c is
 *                                    mapped into c' by CZ on pair p
 *         prefix.trans   uint32[ceil(N/M)*G]  transition rows of states with
 *                                    index % M == 0 (only with -trans)
 *         prefix.opt.<name>  text: one line per component
 *                 "label dist state_index ngates g1 g2 .."  -- 0/1-weighted
 *                 shortest path (local gates weight 0, CZ on a pair of the mask
 *                 weight 1, other CZ forbidden) from state 0 to the FIRST state of
 *                 the component; dist must be constant on the component.
 * stdout  one line: N G depth K
 */
#include <stdio.h>
#include <stdlib.h>
#include <string.h>
#include <stdint.h>

typedef unsigned __int128 u128;
typedef uint16_t row_t;

static int n, G, P;
static int pair_a[15], pair_b[15];

static void rref(row_t *r)
{
    int h = 0;
    for (int col = 2 * n - 1; col >= 0 && h < n; col--) {
        int piv = -1;
        for (int i = h; i < n; i++) if ((r[i] >> col) & 1) { piv = i; break; }
        if (piv < 0) continue;
        row_t t = r[h]; r[h] = r[piv]; r[piv] = t;
        for (int i = 0; i < n; i++) if (i != h && ((r[i] >> col) & 1)) r[i] ^= r[h];
        h++;
    }
}

static void apply(const row_t *s, int g, row_t *out)
{
    for (int i = 0; i < n; i++) {
        row_t v = s[i];
        if (g < n) {                       /* H_a: swap x_a and z_a */
            int a = g;
            int xa = (v >> a) & 1, za = (v >> (n + a)) & 1;
            if (xa != za) v ^= (row_t)((1u << a) | (1u << (n + a)));
        } else if (g < 2 * n) {            /* S_a: z_a ^= x_a */
            int a = g - n;
            v ^= (row_t)(((v >> a) & 1u) << (n + a));
        } else {                           /* CZ_ab: z_a ^= x_b, z_b ^= x_a */
            int a = pair_a[g - 2 * n], b = pair_b[g - 2 * n];
            int xa = (v >> a) & 1, xb = (v >> b) & 1;
            v ^= (row_t)((xb << (n + a)) | (xa << (n + b)));
        }
        out[i] = v;
    }
    rref(out);
}

static u128 key_of(const row_t *r)
{
    u128 k = 0;
    for (int i = 0; i < n; i++) k = (k << 12) | r[i];
    return k;
}

static uint32_t *table; static uint64_t tmask;
static u128 *keys; static row_t *states; static uint32_t N;

static uint64_t hash128(u128 k)
{
    uint64_t a = (uint64_t)k, b = (uint64_t)(k >> 64);
    a ^= b * 0x9E3779B97F4A7C15ULL; a ^= a >> 29; a *= 0xBF58476D1CE4E5B9ULL; a ^= a >> 32;
    return a;
}

/* returns index, inserting when new (sets *isnew) */
static uint32_t lookup(const row_t *r, int *isnew)
{
    u128 k = key_of(r);
    uint64_t h = hash128(k) & tmask;
    for (;;) {
        uint32_t e = table[h];
        if (e == 0xFFFFFFFFu) {
            table[h] = N; keys[N] = k; memcpy(states + (size_t)N * n, r, sizeof(row_t) * n);
            *isnew = 1; return N++;
        }
        if (keys[e] == k) { *isnew = 0; return e; }
        h = (h + 1) & tmask;
    }
}

static uint32_t *uf;
static uint32_t find(uint32_t a) { while (uf[a] != a) { uf[a] = uf[uf[a]]; a = uf[a]; } return a; }

static void dump(const char *prefix, const char *ext, const void *p, size_t bytes)
{
    char fn[1024]; snprintf(fn, sizeof fn, "%s.%s", prefix, ext);
    FILE *f = fopen(fn, "wb"); if (!f) { perror(fn); exit(2); }
    if (bytes && fwrite(p, 1, bytes, f) != bytes) { perror(fn); exit(2); }
    fclose(f);
}

int main(int argc, char **argv)
{
    if (argc < 3) { fprintf(stderr, "usage: stabgraph n prefix [-trans M] [-conn name:mask]..\n"); return 2; }
    n = atoi(argv[1]); const char *prefix = argv[2];
    if (n < 1 || n > 6) { fprintf(stderr, "n out of range\n"); return 2; }
    int transM = 0;
    P = 0;
    for (int a = 0; a < n; a++) for (int b = a + 1; b < n; b++) { pair_a[P] = a; pair_b[P] = b; P++; }
    G = 2 * n + P;
    uint64_t expect = 1; for (int k = 1; k <= n; k++) expect *= ((1u << k) + 1);
    int bits = 4; while ((1ull << bits) < 3 * expect) bits++;
    tmask = (1ull << bits) - 1;
    table = malloc(sizeof(uint32_t) << bits); memset(table, 0xFF, sizeof(uint32_t) << bits);
    keys = malloc(sizeof(u128) * (expect + 1)); states = malloc(sizeof(row_t) * n * (expect + 1));
    uint32_t *trans = malloc(sizeof(uint32_t) * (size_t)G * expect);
    uint32_t *parent = malloc(sizeof(uint32_t) * expect); uint8_t *pgate = malloc(expect);
    uint8_t *depth = malloc(expect);
    if (!table || !keys || !states || !trans || !parent || !pgate || !depth) { fprintf(stderr, "out of memory\n"); return 2; }

    row_t init[6], nx[6]; int isnew;
    for (int q = 0; q < n; q++) init[q] = (row_t)(1u << (n + q));
    rref(init); N = 0; lookup(init, &isnew); parent[0] = 0; pgate[0] = 0xFF; depth[0] = 0;
    int maxdepth = 0;
    for (uint32_t s = 0; s < N; s++) {
        if (N > expect) { fprintf(stderr, "more states than the closed formula\n"); return 3; }
        for (int g = 0; g < G; g++) {
            apply(states + (size_t)s * n, g, nx);
            uint32_t t = lookup(nx, &isnew);
            trans[(size_t)s * G + g] = t;
            if (isnew) { parent[t] = s; pgate[t] = (uint8_t)g; depth[t] = depth[s] + 1; if (depth[t] > maxdepth) maxdepth = depth[t]; }
        }
    }
    if (N != expect) { fprintf(stderr, "state count %u differs from closed formula %llu\n", N, (unsigned long long)expect); return 3; }

    /* components under local gates */
    uf = malloc(sizeof(uint32_t) * N); for (uint32_t i = 0; i < N; i++) uf[i] = i;
    for (uint32_t s = 0; s < N; s++) for (int g = 0; g < 2 * n; g++) {
        uint32_t a = find(s), b = find(trans[(size_t)s * G + g]);
        if (a != b) { if (a < b) uf[b] = a; else uf[a] = b; }
    }
    uint16_t *comp = malloc(sizeof(uint16_t) * N); uint32_t *first = malloc(sizeof(uint32_t) * 4096); int K = 0;
    int32_t *lab = malloc(sizeof(int32_t) * N); for (uint32_t i = 0; i < N; i++) lab[i] = -1;
    for (uint32_t s = 0; s < N; s++) {
        uint32_t r = find(s);
        if (lab[r] < 0) { if (K >= 4096) { fprintf(stderr, "too many components\n"); return 3; } first[K] = s; lab[r] = K++; }
        comp[s] = (uint16_t)lab[r];
    }
    uint8_t *arcs = calloc((size_t)P * K * K, 1);
    for (uint32_t s = 0; s < N; s++) for (int p = 0; p < P; p++)
        arcs[((size_t)p * K + comp[s]) * K + comp[trans[(size_t)s * G + 2 * n + p]]] = 1;

    dump(prefix, "states", states, sizeof(row_t) * n * (size_t)N);
    dump(prefix, "parent", parent, sizeof(uint32_t) * (size_t)N);
    dump(prefix, "pgate", pgate, N);
    dump(prefix, "comp", comp, sizeof(uint16_t) * (size_t)N);
    dump(prefix, "arcs", arcs, (size_t)P * K * K);

    /* options */
    uint8_t *dist = malloc(N); uint32_t *par = malloc(sizeof(uint32_t) * N); uint8_t *pg = malloc(N);
    uint32_t *cur = malloc(sizeof(uint32_t) * 2 * (size_t)N), *nxt = malloc(sizeof(uint32_t) * 2 * (size_t)N);
    for (int i = 3; i < argc; i++) {
        if (!strcmp(argv[i], "-trans") && i + 1 < argc) { transM = atoi(argv[++i]); continue; }
        if (!strcmp(argv[i], "-conn") && i + 1 < argc) {
            char name[64]; unsigned mask; const char *arg = argv[++i];
            const char *colon = strchr(arg, ':'); if (!colon || colon - arg > 60) { fprintf(stderr, "bad -conn\n"); return 2; }
            memcpy(name, arg, colon - arg); name[colon - arg] = 0; mask = (unsigned)strtoul(colon + 1, 0, 0);
            memset(dist, 0xFF, N); size_t nc = 0, nn = 0; dist[0] = 0; par[0] = 0; pg[0] = 0xFF; cur[nc++] = 0;
            for (int d = 0; nc > 0; d++) {
                nn = 0;
                for (size_t i2 = 0; i2 < nc; i2++) {
                    uint32_t s = cur[i2]; if (dist[s] != d) continue;
                    for (int g = 0; g < G; g++) {
                        uint32_t t = trans[(size_t)s * G + g];
                        if (g < 2 * n) { if (dist[t] > d) { dist[t] = (uint8_t)d; par[t] = s; pg[t] = (uint8_t)g; cur[nc++] = t; } }
                        else if ((mask >> (g - 2 * n)) & 1) { if (dist[t] > d + 1) { dist[t] = (uint8_t)(d + 1); par[t] = s; pg[t] = (uint8_t)g; nxt[nn++] = t; } }
                    }
                }
                uint32_t *tmp = cur; cur = nxt; nxt = tmp; nc = nn;
            }
            /* dist constant on components? */
            for (uint32_t s = 0; s < N; s++) if (dist[s] != dist[first[comp[s]]]) { fprintf(stderr, "dist not constant on a component (%s)\n", name); return 3; }
            char ext[96]; snprintf(ext, sizeof ext, "opt.%s", name);
            char fn[1024]; snprintf(fn, sizeof fn, "%s.%s", prefix, ext);
            FILE *f = fopen(fn, "w"); if (!f) { perror(fn); return 2; }
            uint8_t path[4096];
            for (int c = 0; c < K; c++) {
                uint32_t s = first[c]; int len = 0;
                if (dist[s] == 0xFF) { fprintf(f, "%d -1 %u 0\n", c, s); continue; }
                for (uint32_t v = s; v != 0; v = par[v]) { if (len >= 4096) { fprintf(stderr, "path too long\n"); return 3; } path[len++] = pg[v]; }
                fprintf(f, "%d %d %u %d", c, dist[s], s, len);
                for (int j = len - 1; j >= 0; j--) fprintf(f, " %d", path[j]);
                fprintf(f, "\n");
            }
            fclose(f);
            continue;
        }
        fprintf(stderr, "unknown option %s\n", argv[i]); return 2;
    }
    if (transM > 0) {
        char fn[1024]; snprintf(fn, sizeof fn, "%s.trans", prefix);
        FILE *f = fopen(fn, "wb"); if (!f) { perror(fn); return 2; }
        for (uint32_t s = 0; s < N; s += transM) fwrite(trans + (size_t)s * G, sizeof(uint32_t), G, f);
        fclose(f);
    }
    printf("%u %d %d %d\n", N, G, maxdepth, K);
    return 0;
}
