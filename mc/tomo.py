"""E5: exact-statistics harness for the tomography properties (C10-C12).

The library builds the measurement circuits; their *delivered* instruction lists are
interpreted by the model; outcome distributions are computed exactly (stabilizer
inputs: uniform on an affine subspace, as integer counts) or by a small dense
simulator (non-stabilizer probes) and fed to the fitters through a duck-typed
result object; the reported values are compared with Tr(rho P) from the model."""
import copy
import numpy as np

from . import model as M, selftest


class FakeResult:
    """What the fitters need from a qiskit Result: get_counts()."""

    def __init__(self, counts):
        self._counts = counts

    def get_counts(self):
        return self._counts


def key_of(b, N):
    """Count key of outcome b (bit q = qubit q) in Qiskit's little-endian string form."""
    return format(b, "0%db" % N)


def pauli_to_model(p):
    """qiskit Pauli -> (x mask, z mask, phase exponent as qiskit stores it)."""
    x = sum(1 << q for q, v in enumerate(p.x) if v)
    z = sum(1 << q for q, v in enumerate(p.z) if v)
    return x, z, int(p.phase), len(p.x)


def delivered_part(qc, prep_ops):
    """Instruction list after the preparation prefix, plus the measure map; raises ValueError
    when the circuit does not have the shape 'prefix, readout, barrier, measure every qubit q into bit q'."""
    from . import impl
    ops = impl.circuit_ops(qc, keep_measure=True)
    k = len(prep_ops)
    if ops[:k] != list(prep_ops):
        raise ValueError("measurement circuit does not start with the preparation circuit")
    rest = ops[k:]
    gates = [g for g in rest if g[0] != "measure"]
    meas = [g for g in rest if g[0] == "measure"]
    N = qc.num_qubits
    if sorted(meas) != [("measure", q, q) for q in range(N)] or qc.num_clbits != N:
        raise ValueError("not every register qubit q is measured into classical bit q: %r" % (meas,))
    if rest[len(gates):] != meas:
        raise ValueError("gates after measurements")
    return gates


def diag_image(p_xz, gates):
    """Conjugate the Hermitian '+' Pauli with masks (x, z) through the gates; returns (zmask, signbit)
    if the image is Z-type, else None."""
    p = M.herm(p_xz[0], p_xz[1], 0)
    q = M.conj_seq(p, gates)
    if q[0] != 0:
        return None
    return q[1], M.sign_of(q)


def z_subgroup(gens, N):
    """Generators (zmask, signbit) of the Z-type subgroup of the stabilizer group."""
    rows = list(gens)
    h = 0
    for col in range(N):                      # eliminate on the x bits
        piv = None
        for r in range(h, len(rows)):
            if (rows[r][0] >> col) & 1:
                piv = r
                break
        if piv is None:
            continue
        rows[h], rows[piv] = rows[piv], rows[h]
        for r in range(len(rows)):
            if r != h and (rows[r][0] >> col) & 1:
                rows[r] = M.mul(rows[r], rows[h])
        h += 1
    return [(r[1], M.sign_of(r)) for r in rows[h:]]


def stabilizer_outcomes(gens, N):
    """Exact outcome distribution of measuring every qubit of the stabilizer state `gens` in the
    Z basis: the list of outcomes b (each equally likely)."""
    cons = z_subgroup(gens, N)
    return [b for b in range(1 << N) if all((M.pc(a & b) & 1) == s for a, s in cons)]


def state_value(gens, p_xz, N):
    """Tr(rho P) for the stabilizer state `gens` and the '+' Hermitian Pauli (x, z): +1/-1/0."""
    if M.in_group(M.herm(p_xz[0], p_xz[1], 0), gens, N):
        return 1
    if M.in_group(M.herm(p_xz[0], p_xz[1], 1), gens, N):
        return -1
    return 0


def embed(p_xz_m, qubits):
    """m-qubit masks (bit j = list position j) -> register masks."""
    x = sum(1 << q for j, q in enumerate(qubits) if (p_xz_m[0] >> j) & 1)
    z = sum(1 << q for j, q in enumerate(qubits) if (p_xz_m[1] >> j) & 1)
    return x, z


def restrict(p_xz, qubits):
    """register masks -> (m-qubit masks in list order, True if identity off the list)."""
    x = sum(1 << j for j, q in enumerate(qubits) if (p_xz[0] >> q) & 1)
    z = sum(1 << j for j, q in enumerate(qubits) if (p_xz[1] >> q) & 1)
    off = ~sum(1 << q for q in qubits)
    return (x, z), ((p_xz[0] | p_xz[1]) & off) == 0


# ------------------------------------------------------------------------------ dense probes

def dense_gate(g, n):
    name = g[0]
    if name == "t":
        return selftest.kron_all([np.diag([1, np.exp(1j * np.pi / 4)]) if q == g[1] else selftest.I2 for q in range(n)])
    if name == "ry":
        th = g[2]
        m = np.array([[np.cos(th / 2), -np.sin(th / 2)], [np.sin(th / 2), np.cos(th / 2)]], dtype=complex)
        return selftest.kron_all([m if q == g[1] else selftest.I2 for q in range(n)])
    return selftest.gate_matrix(g, n)


def dense_run(gates, n, vec=None):
    v = np.zeros(1 << n, dtype=complex) if vec is None else vec
    if vec is None:
        v[0] = 1
    for g in gates:
        v = dense_gate(g, n) @ v
    return v


def probe_circuit(gates, n):
    """QuantumCircuit for a probe program that may contain t and ry."""
    from . import impl
    qc = impl.QuantumCircuit(n)
    for g in gates:
        if g[0] == "ry":
            qc.ry(g[2], g[1])
        elif g[0] == "t":
            qc.t(g[1])
        else:
            getattr(qc, g[0])(*g[1:])
    return qc


def dense_expectation(vec, p_xz, n):
    P = selftest.pauli_matrix(M.herm(p_xz[0], p_xz[1], 0), n)
    return float(np.real(np.vdot(vec, P @ vec)))


# ------------------------------------------------------------------------------ the generic judge

def build_circuits(kind, m, conn, N, qubits, prep_ops, group_strs=None):
    from . import impl
    prep = probe_circuit(prep_ops, N)
    # the caller's preparation circuit is an arbitrary circuit object: every other one (by program length) carries
    # user metadata and a name, as circuits coming out of a user's own pipeline do
    if len(prep_ops) % 2 == 1:
        prep.metadata = {"experiment": "probe", "tags": [1, 2]}
        prep.name = "user-prep"
    before = (impl.circuit_ops(prep, keep_measure=True), copy.deepcopy(prep.metadata), prep.name, prep.num_clbits)
    ql = None if qubits is None else list(qubits)
    if kind == "tomography":
        out = impl.tomography.full_state_tomography_circuits(prep, conn, ql)
    else:
        stab = impl.Stabilizer(list(group_strs))
        out = [impl.tomography.stabilizer_measurement_circuit(prep, stab, conn, ql)]
    after = (impl.circuit_ops(prep, keep_measure=True), prep.metadata, prep.name, prep.num_clbits)
    if after != before:
        raise ValueError("the preparation circuit passed in was modified by the call (%s)" % (
            "metadata" if after[1] != before[1] else "gates, name or registers"))
    if any(c is prep for c in out):
        raise ValueError("the preparation circuit object itself was returned as a measurement circuit")
    return prep, out


def expected_table(delivered, qubits, N):
    """For each circuit: list of (register masks (x,z) of P, zmask a, signbit s) for every non-empty
    Z-pattern on the listed qubits, where P = U^dagger Z^a U for the delivered part U (so U P U^dagger = (-1)^s... Z^a)."""
    out = []
    m = len(qubits)
    for gates in delivered:
        inv = M.inverse_gates(gates)
        rows = []
        for i in range(1, 1 << m):
            a = sum(1 << q for j, q in enumerate(qubits) if (i >> j) & 1)
            p = M.conj_seq((0, a, 0), inv)          # U^dagger Z^a U, Hermitian with some sign t:  P = (-1)^t P+
            t = M.sign_of(p)
            # U P+ U^dagger = (-1)^t Z^a
            rows.append(((p[0], p[1]), a, t))
        out.append(rows)
    return out


def fit(kind, circuits, counts, full):
    from . import impl
    if kind == "tomography":
        f = impl.tomography.FullStateTomographyFitter(FakeResult(counts), circuits)
    else:
        f = impl.tomography.StabilizerMeasurementFitter(FakeResult(counts[0]), circuits[0])
    return f, f.expectation_values(full_hilbert_space=full)


def compare(ev, table, dists, qubits, N, full, tol=1e-9):
    """ev: dict from the fitter; table: expected_table; dists: per circuit dict {outcome b: weight}.
    Returns messages."""
    m = len(qubits)
    exp = {}
    for rows, dist in zip(table, dists):
        tot = float(sum(dist.values()))
        for (px, a, t) in rows:
            val = sum(w * (-1) ** (t + (M.pc(a & b) & 1)) for b, w in dist.items()) / tot
            key = px if full else restrict(px, qubits)[0]
            exp.setdefault(key, []).append(val)
    nq = N if full else m
    exp.setdefault((0, 0), []).append(1.0)
    got = {}
    msgs = []
    for p, v in ev.items():
        x, z, ph, ln = pauli_to_model(p)
        if ph != 0:
            msgs.append("reported key %s carries a phase" % p)
        if ln != nq:
            msgs.append("reported key %s has %d qubits, expected %d" % (p, ln, nq))
            return msgs
        if (x, z) in got:
            msgs.append("key %s reported twice" % p)
        got[(x, z)] = v
    missing = [k for k in exp if k not in got]
    extra = [k for k in got if k not in exp]
    if missing or extra:
        msgs.append("reported Paulis differ from the ones the delivered circuits diagonalise: %d missing (e.g. %s), %d unexpected (e.g. %s)" % (
            len(missing), M.pauli_str(M.herm(missing[0][0], missing[0][1], 0), nq, False) if missing else "-",
            len(extra), M.pauli_str(M.herm(extra[0][0], extra[0][1], 0), nq, False) if extra else "-"))
    for k, v in got.items():
        if k in exp and not any(abs(v - e) <= tol for e in exp[k]):
            msgs.append("value for %s is %r, exact statistics give %r" % (M.pauli_str(M.herm(k[0], k[1], 0), nq, False), v, exp[k][0]))
            if len(msgs) > 3:
                break
    return msgs
