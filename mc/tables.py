"""Independent strict reader of the shipped lookup tables (stabilizer*-*.txt,
mub*-*.txt).  Reads the files of the current working tree directly."""
import glob
import os
import re

from . import model as M

DATA_DIR = os.path.join(os.environ.get("VERIF_REPO", "/repo"), "src", "htstabilizer", "data")

_TOKEN = re.compile(r"^(h|s|sdg|cx|cz|swap)(\d+)(?:,(\d+))?$")
_NAME = re.compile(r"^(stabilizer|mub)(\d+)-([A-Za-z0-9_]+)\.txt$")


class TableError(Exception):
    pass


def parse_circuit_text(text, n):
    """Strict parser: tokens separated by single blanks (leading/trailing blanks
    tolerated), vocabulary h s sdg cx cz swap, indices < n.  cx a,b: a control."""
    gates = []
    for tok in text.split(" "):
        if tok == "":
            continue
        m = _TOKEN.match(tok)
        if not m:
            raise TableError("bad token %r" % tok)
        name, a, b = m.group(1), int(m.group(2)), m.group(3)
        if name in ("cx", "cz", "swap"):
            if b is None:
                raise TableError("two-qubit gate with one index: %r" % tok)
            b = int(b)
            if a == b:
                raise TableError("two-qubit gate on one qubit: %r" % tok)
            if a >= n or b >= n:
                raise TableError("qubit index out of range: %r" % tok)
            gates.append((name, a, b))
        else:
            if b is not None:
                raise TableError("one-qubit gate with two indices: %r" % tok)
            if a >= n:
                raise TableError("qubit index out of range: %r" % tok)
            gates.append((name, a))
    return gates


def table_files(kind):
    """[(path, n, conn)] for every file of that kind in the data directory, sorted."""
    out = []
    for path in sorted(glob.glob(os.path.join(DATA_DIR, kind + "*.txt"))):
        m = _NAME.match(os.path.basename(path))
        if not m or m.group(1) != kind:
            out.append((path, None, None))
            continue
        out.append((path, int(m.group(2)), m.group(3)))
    return out


def read_lines(path):
    with open(path, newline="") as f:
        raw = f.read()
    lines = raw.split("\n")
    return [ln for ln in lines if ln != ""]


def read_stabilizer_table(path, n):
    """-> list of dicts {graph_id, cost, depth, text, gates}; raises TableError."""
    out = []
    for k, line in enumerate(read_lines(path)):
        if "\r" in line:
            raise TableError("%s line %d: carriage return" % (path, k))
        parts = line.split(":")
        if len(parts) != 4:
            raise TableError("%s line %d: expected 4 fields" % (path, k))
        for fld in parts[:3]:
            if not re.match(r"^\d+$", fld):
                raise TableError("%s line %d: non-numeric field %r" % (path, k, fld))
        gid = int(parts[0])
        if gid >= 1 << (n * (n - 1) // 2):
            raise TableError("%s line %d: graph id out of range" % (path, k))
        try:
            gates = parse_circuit_text(parts[3], n)
        except TableError as e:
            raise TableError("%s line %d: %s" % (path, k, e))
        out.append({"graph_id": gid, "cost": int(parts[1]), "depth": int(parts[2]),
                    "text": parts[3], "gates": gates})
    return out


def read_mub_table(path, n):
    """-> (header (total, max_cost, max_depth), [ (basis strings, gates) ])."""
    lines = read_lines(path)
    head = lines[0].split(":")
    if len(head) != 3 or not all(re.match(r"^\d+$", h) for h in head):
        raise TableError("%s: bad header" % path)
    entries = []
    for k, line in enumerate(lines[1:]):
        parts = line.split(":")
        if len(parts) != 2:
            raise TableError("%s line %d: expected 2 fields" % (path, k + 1))
        basis = parts[0].split(",")
        for s in basis:
            if not re.match(r"^[+-]?[IXYZ]{%d}$" % n, s):
                raise TableError("%s line %d: bad Pauli %r" % (path, k + 1, s))
        entries.append((basis, parse_circuit_text(parts[1], n)))
    return tuple(int(h) for h in head), entries
