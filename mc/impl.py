"""Adapter between the model and the implementation under test.

htstabilizer is imported from /repo/src (the current working tree -- Python needs
no build step); this is asserted at import time.  The only observation taken
from a returned QuantumCircuit is its instruction list (gate name, qubit indices),
which the model interprets (DESIGN.md section 4, link 4).
"""
import os
import sys
import warnings

REPO = os.environ.get("VERIF_REPO", "/repo")
SRC = os.path.join(REPO, "src")
if SRC not in sys.path:
    sys.path.insert(0, SRC)
warnings.filterwarnings("ignore")

import numpy as np                                   # noqa: E402
import htstabilizer                                  # noqa: E402

assert os.path.realpath(htstabilizer.__file__).startswith(os.path.realpath(SRC) + os.sep), \
    "htstabilizer imported from %s, expected %s" % (htstabilizer.__file__, SRC)

from qiskit import QuantumCircuit                    # noqa: E402
from htstabilizer.stabilizer import Stabilizer       # noqa: E402
from htstabilizer.graph import Graph                 # noqa: E402
from htstabilizer import (stabilizer_circuits, circuit_lookup, lc_classes, connectivity_support,  # noqa: E402
                          mub_circuits, tomography, find_local_clifford_layer as fll, f2_algebra,
                          linear_index, rotate_stabilizer_into_state as rot)

from . import model as M                             # noqa: E402

DATA_DIR = os.path.join(SRC, "htstabilizer", "data")


def circuit_ops(qc, keep_measure=False):
    """Instruction list of a QuantumCircuit as model gates.  Barriers are dropped;
    measurements are dropped unless keep_measure; anything with parameters, or any
    classical condition, is returned as-is (name, qubits..) and will be rejected by
    model.check_alphabet."""
    ops = []
    for inst in qc.data:
        name = inst.operation.name
        qs = tuple(qc.find_bit(q).index for q in inst.qubits)
        if name == "barrier":
            continue
        if name == "measure":
            if keep_measure:
                ops.append(("measure",) + qs + tuple(qc.find_bit(c).index for c in inst.clbits))
            continue
        if getattr(inst.operation, "params", None):
            ops.append((name + "(params)",) + qs)
            continue
        ops.append((name,) + qs)
    return ops


def ops_to_circuit(gates, n):
    qc = QuantumCircuit(n)
    for g in gates:
        name = g[0]
        if name in ("i", "id"):
            qc.id(g[1])
        else:
            getattr(qc, name)(*g[1:])
    return qc


def gens_to_matrices(gens, n):
    """Model generators -> (R, S, phases) as the library documents them:
    R[q, j] = x bit of generator j on qubit q."""
    m = len(gens)
    R = np.zeros((n, m), dtype=np.int8)
    S = np.zeros((n, m), dtype=np.int8)
    ph = np.zeros(m, dtype=np.int8)
    for j, p in enumerate(gens):
        for q in range(n):
            R[q, j] = (p[0] >> q) & 1
            S[q, j] = (p[1] >> q) & 1
        ph[j] = M.sign_of(p)
    return R, S, ph


def matrices_to_gens(R, S, phases=None):
    n, m = R.shape
    out = []
    for j in range(m):
        x = sum((int(R[q, j]) & 1) << q for q in range(n))
        z = sum((int(S[q, j]) & 1) << q for q in range(n))
        out.append(M.herm(x, z, int(phases[j]) & 1 if phases is not None else 0))
    return out


def stabilizer_gens(stab):
    """Read the signed generators out of a library Stabilizer object."""
    return matrices_to_gens(stab.R, stab.S, stab.phases)


FORMATS = ("strings", "strings_plain", "matrices", "matrices_nophase", "matrices_i64", "graph", "circuit")


def make_stabilizer(gens, n, fmt="strings", trace=None):
    """Build the library input for model generators in the requested format.
    Returns None if the format cannot express these generators (e.g. 'graph' for a
    non-graph generator set, 'matrices_nophase' with a minus sign)."""
    if fmt == "strings":
        return Stabilizer(M.gens_str(gens, n))
    if fmt == "strings_plain":       # '+' omitted
        return Stabilizer([s[1:] if s[0] == "+" else s for s in M.gens_str(gens, n)])
    if fmt in ("matrices", "matrices_i64", "matrices_nophase"):
        R, S, ph = gens_to_matrices(gens, n)
        if fmt == "matrices_nophase":
            if ph.any():
                return None
            return Stabilizer((R, S))
        if fmt == "matrices_i64":
            return Stabilizer((R.astype(np.int64), S.astype(np.int64), ph.astype(np.int64)))
        return Stabilizer((R, S, ph))
    if fmt == "graph":
        adj = np.zeros((n, n), dtype=np.int8)
        for v, p in enumerate(gens):
            if p[0] != (1 << v) or (p[1] >> v) & 1 or M.sign_of(p):
                return None
            for w in range(n):
                adj[v, w] = (p[1] >> w) & 1
        if not (adj == adj.T).all():
            return None
        return Stabilizer(Graph(adj))
    if fmt == "circuit":
        if trace is None:
            return None
        return Stabilizer(ops_to_circuit(trace, n))
    raise KeyError(fmt)


def class_id(stab):
    return lc_classes.determine_lc_class(stab).id()


def lookup(n, conn, cid):
    return circuit_lookup.stabilizer_circuit_lookup(n, conn, cid)
