"""E2: runs the implementation on model states and judges it against the model.

A *spec* names a family of signed presentations of model states compactly; workers
expand it, call the check's judge on every case and return counters, failures and
observations.  Specs:

  ("idx",   n, i, sigmas, radius)   state i of U_n, RREF generators with sign bit j of
                                    sigma on row j, every presentation within `radius`
  ("trace", n, i, sigmas)           generators = images of (+/-)Z_q under the BFS trace of
                                    state i (sigma bit q <-> X_q prepended); carries the trace
  ("gens",  n, strs, sigmas)        explicit unsigned generator strings, sign bit j on gen j

A *case* is (n, conn, gens, fmt, trace) and is JSON-serialisable as
{n, conn, gens:[signed strings], fmt, trace}.
"""
import itertools
import os
import numpy as np

from . import core, model as M, binding as B, tables


def all_sigmas(n):
    return list(range(1 << n))


def low_weight_sigmas(n, w=1):
    return [s for s in range(1 << n) if M.pc(s) <= w]


def expand_spec(spec):
    """Yield (n, gens, trace, state_index or None)."""
    kind, n = spec[0], spec[1]
    if kind == "idx":
        _, _, i, sigmas, radius = spec
        g = B.sg(n)
        for s in sigmas:
            for gens in M.presentations(g.gens(i, s), radius):
                yield n, gens, None, i
    elif kind == "trace":
        _, _, i, sigmas = spec
        g = B.sg(n)
        tr = g.trace(i)
        for s in sigmas:
            full = [("x", q) for q in range(n) if (s >> q) & 1] + tr
            yield n, M.run(full, n), full, i
    elif kind == "gens":
        _, _, strs, sigmas = spec
        base = M.parse_gens(strs)
        for s in sigmas:
            yield n, [M.herm(p[0], p[1], (s >> j) & 1) for j, p in enumerate(base)], None, None
    else:
        raise KeyError(kind)


def case_json(n, conn, gens, fmt, trace):
    return {"n": n, "conn": conn, "gens": M.gens_str(gens, n), "fmt": fmt,
            "trace": [list(t) for t in trace] if trace is not None else None}


def case_from_json(body):
    n = body["n"]
    trace = [tuple(t) for t in body["trace"]] if body.get("trace") is not None else None
    return n, body["conn"], M.parse_gens(body["gens"]), body["fmt"], trace


_JUDGES = {}


def _work(payload):
    judge_name, specs, conns_fmts = payload
    judge = _JUDGES[judge_name]
    counters = {"cases": 0, "model_states": 0}
    fails = []
    obs = []
    seen_states = set()
    hist = core.History(to_case=lambda r: dict(case_json(*r), kind="case"))
    for spec, (conns, fmts) in zip(specs, conns_fmts):
        for n, gens, trace, idx in expand_spec(spec):
            st = M.canon(gens, n)
            if st not in seen_states:
                seen_states.add(st)
                counters["model_states"] += 1
            for fmt in fmts:
                if fmt == "circuit" and trace is None:
                    continue
                for conn in conns:
                    counters["cases"] += 1
                    try:
                        msgs, ob = judge(n, conn, gens, fmt, trace)
                    except core.HarnessError:
                        raise
                    except Exception as ex:      # noqa: BLE001  (API raised on a valid input)
                        import traceback
                        tb = traceback.extract_tb(ex.__traceback__)
                        where = "%s:%d" % (tb[-1].filename.split("/")[-1], tb[-1].lineno) if tb else "?"
                        msgs, ob = ["raised: %s: %s (at %s)" % (type(ex).__name__, str(ex)[:200], where)], None
                    if msgs is None:          # format cannot express this case
                        counters["cases"] -= 1
                        continue
                    if msgs:
                        cj = hist.attach(case_json(n, conn, gens, fmt, trace))
                        for m in msgs:
                            fails.append((m, cj))
                    hist.add((n, conn, gens, fmt, trace))
                    if ob is not None:
                        obs.append(tuple(ob) + (M.gens_str(gens, n), fmt if fmt != "circuit" else "matrices"))
    counters["_sample"] = hist.to_case(hist.raw[len(hist.raw) // 2]) if hist.raw else None
    return counters, fails, obs


def run_units(ctx, judge, units, nontrivial=None):
    """units: list of (label, specs, conns, fmts).  Returns the list of observations."""
    name = judge.__module__ + "." + judge.__qualname__
    _JUDGES[name] = judge
    B.warm()
    all_obs = []
    for label, specs, conns, fmts in units:
        ctx.phase(label)
        specs = list(specs)
        if not specs:
            continue
        # interleave so that every worker gets a similar mix, but keep order inside a chunk
        nchunks = min(len(specs), core.NPROC * 2)
        chunked = [specs[k::nchunks] for k in range(nchunks)]
        payloads = [(name, ch, [(conns, fmts)] * len(ch)) for ch in chunked]
        results = core.pmap(_work, payloads)
        ncases = 0
        for k, (counters, fails, obs) in enumerate(results):
            smp = counters.pop("_sample", None)
            if smp is not None and k == 0:
                smp = dict(smp)
                smp.pop("kind", None)
                smp["family"] = label
                if smp.get("trace") is not None and len(smp["trace"]) > 12:
                    smp["trace"] = smp["trace"][:12] + ["..."]
                ctx.sample(smp, limit=40)
            ncases += counters["cases"]
            ctx.count("api_cases", counters["cases"])
            ctx.count("states", counters["model_states"])
            ctx.count("traces_validated_against_impl", counters["cases"])
            for m, case in sorted(fails, key=lambda t: (len(core.canon_json(t[1])), core.canon_json(t[1]), t[0])):
                ctx.violation(dict(case, kind="case"), "case: n=%d %s %s %s: %s" % (case["n"], case["conn"], case["fmt"], case["gens"], m))
            all_obs.extend(obs)
        ctx.bounds.setdefault("explored", {})[label] = {"specs": len(specs), "cases": ncases, "conns": list(conns), "formats": list(fmts)}
    return all_obs


# ------------------------------------------------------------------------------ families of states

def table_graphs(n, conn):
    """graph ids listed in the shipped table of (n, conn) -- used only to CHOOSE states."""
    import os
    path = os.path.join(tables.DATA_DIR, "stabilizer%d-%s.txt" % (n, conn))
    return [e["graph_id"] for e in tables.read_stabilizer_table(path, n)]


def ball_specs(n, gids, r, sigmas):
    """B_n(r): C_0 x .. x C_{n-1} |G> with at most r non-identity local Cliffords (mod Paulis)."""
    specs = []
    seen = set()
    for gid in gids:
        base = B.graph_states_gens(n, gid)
        for k in range(r + 1):
            for qs in itertools.combinations(range(n), k):
                for cs in itertools.product(range(1, 6), repeat=k):
                    choice = [0] * n
                    for q, c in zip(qs, cs):
                        choice[q] = c
                    gens = M.run(M.local_layer_gates(choice), n, base)
                    strs = tuple(M.pauli_str(p, n, with_sign=False) for p in gens)
                    if strs in seen:
                        continue
                    seen.add(strs)
                    specs.append(("gens", n, list(strs), sigmas))
    return specs


def rep_gids(n):
    """Union over configurations of the table graphs (one per class and configuration)."""
    out = []
    for conn in M.configs_for(n):
        for gid in table_graphs(n, conn):
            if gid not in out:
                out.append(gid)
    return out


def standard_units(tier, with_circuit_format=True, sign_mode="full", thin=1):
    """The exploration plan shared by C01-C04 (DESIGN.md section 5, C01 table).
    sign_mode 'full' as in the table; 'light' uses fewer sign vectors (readout-type checks)."""
    quick = tier == "quick"
    units = []
    light = sign_mode == "light"
    # n = 2 : everything
    g2 = B.sg(2)
    units.append(("n=2: all groups x all signs x all generating sets x all formats",
                  [("idx", 2, i, all_sigmas(2), "all") for i in range(g2.N)], M.configs_for(2),
                  ["strings", "strings_plain", "matrices", "matrices_nophase", "matrices_i64", "graph"]))
    units.append(("n=2: trace-circuit format, all signed states",
                  [("trace", 2, i, all_sigmas(2)) for i in range(g2.N)], M.configs_for(2), ["circuit", "strings"]))
    # n = 3
    g3 = B.sg(3)
    sig3 = all_sigmas(3) if not light else [0, 7, 2]
    if quick:
        units.append(("n=3: all groups x signs x presentations within one move",
                      [("idx", 3, i, sig3, 1) for i in range(g3.N)], M.configs_for(3), ["strings"]))
        units.append(("n=3: all groups x signs, canonical generators, matrix formats",
                      [("idx", 3, i, sig3, 0) for i in range(g3.N)], M.configs_for(3), ["matrices", "matrices_nophase", "matrices_i64", "strings_plain"]))
    else:
        units.append(("n=3: all groups x signs x ALL 168 generating sets",
                      [("idx", 3, i, sig3, "all") for i in range(g3.N)], M.configs_for(3), ["strings", "matrices"]))
    units.append(("n=3: trace-circuit format, all signed states",
                  [("trace", 3, i, all_sigmas(3) if not light else [0, 5]) for i in range(g3.N)], M.configs_for(3),
                  ["circuit"] if with_circuit_format else ["matrices"]))
    # n = 4
    g4 = B.sg(4)
    if quick:
        units.append(("n=4: all groups x {+, one weight-1 sign vector, all minus}, canonical generators",
                      [("idx", 4, i, [0, 1 << (i % 4), 15] if not light else [0, 15], 0) for i in range(g4.N)], M.configs_for(4), ["matrices"]))
    else:
        s4 = all_sigmas(4) if not light else [0, 15, 4]
        units.append(("n=4: all groups x signs, canonical generators",
                      [("idx", 4, i, s4, 0) for i in range(g4.N)], M.configs_for(4), ["matrices"]))
        units.append(("n=4: all groups x signs, trace presentation (circuit and string formats)",
                      [("trace", 4, i, s4) for i in range(g4.N)], M.configs_for(4),
                      ["circuit", "strings"] if with_circuit_format else ["strings"]))
        units.append(("n=4: table graph states, presentations within one move",
                      [("gens", 4, M.gens_str(p, 4), [0]) for gid in rep_gids(4)
                       for p in [q for q in M.presentations(B.graph_states_gens(4, gid), 1)]], M.configs_for(4), ["strings"]))
    # n = 5
    g5 = B.sg(5)
    if quick:
        s5 = [0, 31, 1, 2, 4, 8, 16] if not light else [0, 31]
        for conn in M.configs_for(5):
            units.append(("n=5 %s: table graph states x signs" % conn,
                          [("gens", 5, M.gens_str(B.graph_states_gens(5, gid), 5), s5) for gid in table_graphs(5, conn)],
                          [conn], ["strings", "graph"]))
        units.append(("n=5: local ball r=1 around the table graphs of 'all'",
                      ball_specs(5, table_graphs(5, "all"), 1, [0, 21]), ["all", "linear"], ["matrices"]))
        units.append(("n=5: every 32nd group in BFS order, all configurations",
                      [("idx", 5, i, [i % 32], 0) for i in range(0, g5.N, 32)], M.configs_for(5), ["matrices"]))
    else:
        units.append(("n=5: ALL 75735 groups x all configurations x {sigma=0, sigma=index mod 32}",
                      [("idx", 5, i, sorted({0, i % 32}) if not light else [i % 32], 0) for i in range(g5.N)], M.configs_for(5), ["matrices"]))
        units.append(("n=5: local ball r=1 around all table graphs",
                      ball_specs(5, rep_gids(5), 1, [0, 21]), M.configs_for(5), ["strings"]))
    # n = 6
    g6 = B.sg(6)
    if quick:
        for conn in M.configs_for(6):
            units.append(("n=6 %s: table graph states x {+, -}" % conn,
                          [("gens", 6, M.gens_str(B.graph_states_gens(6, gid), 6), [0, 63]) for gid in table_graphs(6, conn)],
                          [conn], ["strings"]))
        units.append(("n=6: local ball r=1 around the table graphs of 'all'",
                      ball_specs(6, table_graphs(6, "all"), 1, [0]), ["all"], ["matrices"]))
        units.append(("n=6: every 4096th group in BFS order, all configurations",
                      [("idx", 6, i, [(i // 4096) % 64], 0) for i in range(0, g6.N, 4096)], M.configs_for(6), ["matrices"]))
    else:
        for conn in M.configs_for(6):
            units.append(("n=6 %s: local ball r=2 around the table graphs" % conn,
                          ball_specs(6, table_graphs(6, conn), 2, [0]), [conn], ["matrices"]))
        units.append(("n=6: all 32768 graph states on 'all'",
                      [("gens", 6, M.gens_str(B.graph_states_gens(6, gid), 6), [gid % 64]) for gid in range(1 << 15)], ["all"], ["strings"]))
        units.append(("n=6: table graph states x all 64 sign vectors",
                      [("gens", 6, M.gens_str(B.graph_states_gens(6, gid), 6), all_sigmas(6) if not light else [0, 63, 21])
                       for gid in rep_gids(6)], ["all", "linear", "H"], ["matrices"]))
        for k, conn in enumerate(M.configs_for(6)):
            units.append(("n=6 %s: residue class R16 (index = 16*(7j+%d)) of all groups in BFS order" % (conn, k),
                          [("idx", 6, i, [(i // 16) % 64], 0) for i in range(16 * k, g6.N, 16 * 7)], [conn], ["matrices"]))
    # every graph, given in graph form (generators X_v Z_N(v)): as a Graph object and as signed strings
    for n in (2, 3, 4, 5):
        ng = 1 << (n * (n - 1) // 2)
        units.append(("n=%d: ALL %d graphs in graph form (Graph object; strings with a sign pattern)" % (n, ng),
                      [("gens", n, M.gens_str(B.graph_states_gens(n, gid), n), [0, (gid * 5 + 1) % (1 << n)] if not light else [(gid * 5 + 1) % (1 << n)])
                       for gid in range(ng)], M.configs_for(n), ["graph", "strings"]))
    # the same single-qubit Clifford on every qubit of every table graph state (incl. HSH on all qubits: the layer
    # of maximal gate count)
    for n in (3, 4, 5, 6):
        for conn in M.configs_for(n):
            specs = []
            for gid in table_graphs(n, conn):
                base = B.graph_states_gens(n, gid)
                for c in range(1, 6):
                    gens = M.run(M.local_layer_gates([c] * n), n, base)
                    specs.append(("gens", n, [M.pauli_str(p, n, with_sign=False) for p in gens], [(gid + c) % (1 << n)]))
            units.append(("n=%d %s: table graph states with the same local Clifford on every qubit" % (n, conn), specs, [conn], ["matrices"]))
    if quick:
        # sparse ball for every configuration: one non-identity local Clifford on each qubit in turn
        for conn in M.configs_for(6):
            specs = []
            for k, gid in enumerate(table_graphs(6, conn)):
                base = B.graph_states_gens(6, gid)
                for q in range(6):
                    choice = [0] * 6
                    choice[q] = 1 + (k + q) % 5
                    gens = M.run(M.local_layer_gates(choice), 6, base)
                    specs.append(("gens", 6, [M.pauli_str(p, 6, with_sign=False) for p in gens], [(k * 7 + q) % 64]))
            units.append(("n=6 %s: table graph states with one local Clifford on one qubit (each qubit in turn)" % conn, specs, [conn], ["matrices"]))
    confs6 = M.configs_for(6)
    step6 = 16 if quick else 1
    for k, conn in enumerate(confs6):
        units.append(("n=6 %s: graphs in graph form, graph id = %d mod %d" % (conn, k, 7 * step6),
                      [("gens", 6, M.gens_str(B.graph_states_gens(6, gid), 6), [gid % 64]) for gid in range(k, 1 << 15, 7 * step6)],
                      [conn], ["strings"]))
    full6 = os.environ.get("VERIF_FULL6", "")
    if full6:
        # optional, outside both tiers: the COMPLETE six-qubit space for the named configurations (about 1 h each)
        for conn in full6.split(","):
            if conn in confs6:
                units.append(("n=6 %s: ALL 4922775 groups, sigma = index mod 64 [VERIF_FULL6]" % conn,
                              [("idx", 6, i, [i % 64], 0) for i in range(g6.N)], [conn], ["matrices"]))
    if thin > 1:
        # thin out the large families (deterministically: every thin-th spec); the small complete ones stay
        units = [(label + (" [every %d-th spec]" % thin if len(specs) > 600 else ""),
                  specs[::thin] if len(specs) > 600 else specs, conns, fmts) for (label, specs, conns, fmts) in units]
    return units
